#!/bin/sh
# runs every check of the given tier (default quick) on the current /repo tree; prints one line per check
TIER=${1:-quick}
cd /verif || exit 2
for p in C01 C02 C03 C04 C05 C06 C07 C08 C09 C10 C11 C12 C13 C14 C15 C16 C17 C18; do
  out=$(./check $p $TIER 2>&1); rc=$?
  echo "exit=$rc $(echo "$out" | tail -1 | cut -c1-220)"
done
