fn main() {
    // make our getrandom() override visible to dlsym(RTLD_DEFAULT, "getrandom"), which is how std finds it
    println!("cargo:rustc-link-arg-bins=-Wl,--export-dynamic-symbol=getrandom");
}
