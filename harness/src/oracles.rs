//! Output-level oracles (C01-C05, C07): input JSON + output JSON only, via `spec`.
#![allow(dead_code)]

use crate::spec::*;
use std::collections::{BTreeMap, BTreeSet};

pub struct Verdict {
    pub violations: Vec<(String, String)>, // (clause, detail)
    pub nontrivial: bool,
}

impl Verdict {
    fn new() -> Verdict {
        Verdict { violations: vec![], nontrivial: false }
    }
    fn fail(&mut self, clause: &str, detail: String) {
        self.violations.push((clause.to_string(), detail));
    }
}

pub fn c01(spec: &Spec, out: &Out) -> Verdict {
    let mut v = Verdict::new();
    for veh in &out.vehicles {
        if veh.acts.is_empty() {
            v.fail("no-activity", format!("vehicle {} has no service trip or maintenance slot", veh.id));
        }
        if let Err(e) = depot_loc(spec, &veh.start_depot) {
            v.fail("start-depot", format!("vehicle {}: {}", veh.id, e));
        }
        if let Err(e) = depot_loc(spec, &veh.end_depot) {
            v.fail("end-depot", format!("vehicle {}: {}", veh.id, e));
        }
        if veh.acts.len() >= 2 {
            v.nontrivial = true;
        }
        for w in veh.acts.windows(2) {
            if !spec.reach(w[0], w[1]) {
                let (a, b) = (&spec.acts[w[0]], &spec.acts[w[1]]);
                v.fail(
                    "unconnectable-pair",
                    format!(
                        "vehicle {}: {} (ends {} at {}) cannot reach {} (starts {} at {}) under the documented rule",
                        veh.id, a.id, a.end, spec.locs[a.dest], b.id, b.start, spec.locs[b.origin]
                    ),
                );
            }
        }
        for &ai in &veh.acts {
            if let Some(t) = spec.acts[ai].vt() {
                if t != veh.vt {
                    v.fail("wrong-type", format!("vehicle {} of type {} serves segment {} of type {}", veh.id, spec.types[veh.vt].id, spec.acts[ai].id, spec.types[t].id));
                }
            }
        }
    }
    v
}

pub fn c02(spec: &Spec, out: &Out) -> Verdict {
    let mut v = Verdict::new();
    for ai in 0..spec.acts.len() {
        let f = match out.formation_of(spec, ai) {
            Some(f) => f,
            None => continue, // completeness is C03's business
        };
        if let Some(l) = spec.limit(ai) {
            if f.len() as i64 > l {
                let what = if spec.acts[ai].is_seg() { "formation-limit" } else { "track-limit" };
                v.fail(what, format!("{} hosts {} vehicles, limit is {}", spec.acts[ai].id, f.len(), l));
            }
            if f.len() as i64 == l || (spec.acts[ai].is_seg() && spec.required(ai) > l) {
                v.nontrivial = true;
            }
        }
    }
    // depots: count from the vehicle view
    let mut per: BTreeMap<(String, usize), i64> = BTreeMap::new();
    let mut tot: BTreeMap<String, i64> = BTreeMap::new();
    for veh in &out.vehicles {
        *per.entry((veh.start_depot.clone(), veh.vt)).or_insert(0) += 1;
        *tot.entry(veh.start_depot.clone()).or_insert(0) += 1;
    }
    for ((d, t), n) in &per {
        if d == OVERFLOW_DEPOT_ID {
            continue;
        }
        if let Some(di) = spec.depot_by_id(d) {
            if let Some(cap) = spec.depots[di].capacity_for(*t) {
                if *n > cap {
                    v.fail("depot-type-capacity", format!("{} vehicles of type {} start at depot {}, capacity for the type is {}", n, spec.types[*t].id, d, cap));
                }
                if *n == cap {
                    v.nontrivial = true;
                }
            }
        }
    }
    for (d, n) in &tot {
        if d == OVERFLOW_DEPOT_ID {
            continue;
        }
        if let Some(di) = spec.depot_by_id(d) {
            if let Some(cap) = spec.depots[di].total {
                if *n > cap {
                    v.fail("depot-total-capacity", format!("{} vehicles start at depot {}, total capacity is {}", n, d, cap));
                }
                if *n == cap {
                    v.nontrivial = true;
                }
            }
        }
    }
    if out.uses_overflow() {
        v.nontrivial = true; // a real limit pushed a vehicle to the exempt depot
    }
    v
}

fn field_eq(v: &serde_json::Value, k: &str, expect: &str) -> bool {
    v.get(k).and_then(|x| x.as_str()) == Some(expect)
}
fn time_eq(v: &serde_json::Value, k: &str, expect: i64) -> bool {
    v.get(k).and_then(|x| x.as_str()).and_then(|s| parse_out_time(s).ok()) == Some(expect)
}

pub fn c03(spec: &Spec, out: &Out, raw: &serde_json::Value) -> Verdict {
    let mut v = Verdict::new();
    // completeness of the trip view
    let mut seen: BTreeMap<&str, usize> = BTreeMap::new();
    for (id, _) in out.seg_list.iter().chain(out.slot_list.iter()) {
        *seen.entry(id.as_str()).or_insert(0) += 1;
    }
    for (ai, a) in spec.acts.iter().enumerate() {
        match seen.get(a.id.as_str()) {
            None => v.fail("missing-activity", format!("{} of the input is not listed in the output", a.id)),
            Some(1) => {}
            Some(n) => v.fail("duplicate-activity", format!("{} is listed {} times", a.id, n)),
        }
        let list = if a.is_seg() { &out.seg_list } else { &out.slot_list };
        if let Some((_, e)) = list.iter().find(|(i, _)| i == &a.id) {
            let ok = if a.is_seg() {
                field_eq(e, "origin", &spec.locs[a.origin])
                    && field_eq(e, "destination", &spec.locs[a.dest])
                    && time_eq(e, "departure", a.start)
                    && time_eq(e, "arrival", a.end)
                    && field_eq(e, "vehicleType", &spec.types[a.vt().unwrap()].id)
            } else {
                field_eq(e, "location", &spec.locs[a.origin]) && time_eq(e, "start", a.start) && time_eq(e, "end", a.end)
            };
            if !ok {
                v.fail("activity-fields", format!("{} is listed with fields differing from the input: {}", a.id, e));
            }
            // formation vs vehicle view
            let f = out.formation_of(spec, ai).unwrap_or_default();
            let fs: BTreeSet<&String> = f.iter().collect();
            if fs.len() != f.len() {
                v.fail("formation-duplicate", format!("formation of {} lists a vehicle twice: {:?}", a.id, f));
            }
            let vs: BTreeSet<&String> = out.vehicles.iter().filter(|veh| veh.acts.contains(&ai)).map(|veh| &veh.id).collect();
            if fs != vs {
                v.fail("view-mismatch", format!("{}: formation {:?} but itineraries containing it: {:?}", a.id, fs, vs));
            }
            if f.len() >= 2 {
                v.nontrivial = true;
            }
        }
    }
    let input_ids: BTreeSet<&str> = spec.acts.iter().map(|a| a.id.as_str()).collect();
    for id in seen.keys() {
        if !input_ids.contains(id) {
            v.fail("unknown-activity", format!("output lists {} which is not in the input", id));
        }
    }
    // vehicle view carries the input's own data
    if let Some(fleet) = raw.pointer("/schedule/fleet").and_then(|f| f.as_array()) {
        for fl in fleet {
            for veh in fl.get("vehicles").and_then(|x| x.as_array()).into_iter().flatten() {
                for ds in veh.get("departureSegments").and_then(|x| x.as_array()).into_iter().flatten() {
                    if let Some(ai) = ds.get("departureSegment").and_then(|x| x.as_str()).and_then(|id| spec.act_by_id(id)) {
                        let a = &spec.acts[ai];
                        if !(field_eq(ds, "origin", &spec.locs[a.origin]) && field_eq(ds, "destination", &spec.locs[a.dest]) && time_eq(ds, "departure", a.start) && time_eq(ds, "arrival", a.end)) {
                            v.fail("vehicle-view-fields", format!("vehicle lists {} with fields differing from the input: {}", a.id, ds));
                        }
                    }
                }
                for ms in veh.get("maintenanceSlots").and_then(|x| x.as_array()).into_iter().flatten() {
                    if let Some(ai) = ms.get("maintenanceSlot").and_then(|x| x.as_str()).and_then(|id| spec.act_by_id(id)) {
                        let a = &spec.acts[ai];
                        if !(field_eq(ms, "location", &spec.locs[a.origin]) && time_eq(ms, "start", a.start) && time_eq(ms, "end", a.end)) {
                            v.fail("vehicle-view-fields", format!("vehicle lists {} with fields differing from the input: {}", a.id, ms));
                        }
                    }
                }
            }
        }
    }
    // vehicle ids unique
    let ids: BTreeSet<&String> = out.vehicles.iter().map(|x| &x.id).collect();
    if ids.len() != out.vehicles.len() {
        v.fail("vehicle-id-duplicate", "two vehicles share an id".into());
    }
    // depot loads
    let mut expect: BTreeMap<(String, String), i64> = BTreeMap::new();
    for veh in &out.vehicles {
        *expect.entry((veh.start_depot.clone(), spec.types[veh.vt].id.clone())).or_insert(0) += 1;
    }
    let mut listed: BTreeMap<(String, String), i64> = BTreeMap::new();
    for (d, loads) in &out.depot_loads {
        if d != OVERFLOW_DEPOT_ID && spec.depot_by_id(d).is_none() {
            v.fail("depot-load-unknown-depot", format!("depotLoads names {}", d));
        }
        for (t, n) in loads {
            if listed.insert((d.clone(), t.clone()), *n).is_some() {
                v.fail("depot-load-duplicate", format!("depotLoads lists ({}, {}) twice", d, t));
            }
        }
    }
    for (k, n) in &listed {
        if *n != 0 && expect.get(k) != Some(n) {
            v.fail("depot-load", format!("depotLoads says {} vehicles of type {} at {}, the fleet has {}", n, k.1, k.0, expect.get(k).copied().unwrap_or(0)));
        }
    }
    for (k, n) in &expect {
        if listed.get(k) != Some(n) {
            v.fail("depot-load", format!("{} vehicles of type {} start at {}, depotLoads says {:?}", n, k.1, k.0, listed.get(k)));
        }
    }
    // dead-head trips = location changes, each inside its gap
    for veh in &out.vehicles {
        if veh.acts.is_empty() {
            continue;
        }
        // legs: (from loc name, to loc name, earliest departure, latest arrival); legs touching the
        // overflow depot (located nowhere) are neither required nor forbidden
        let mut legs: Vec<Option<(String, String, i64, i64)>> = vec![];
        let first = &spec.acts[veh.acts[0]];
        let last = &spec.acts[*veh.acts.last().unwrap()];
        match depot_loc(spec, &veh.start_depot) {
            Ok(Some(l)) if l != first.origin => legs.push(Some((spec.locs[l].clone(), spec.locs[first.origin].clone(), EARLIEST, first.start))),
            Ok(Some(_)) => {}
            _ => legs.push(None),
        }
        for w in veh.acts.windows(2) {
            let (a, b) = (&spec.acts[w[0]], &spec.acts[w[1]]);
            if a.dest != b.origin {
                legs.push(Some((spec.locs[a.dest].clone(), spec.locs[b.origin].clone(), a.end, b.start)));
            }
        }
        match depot_loc(spec, &veh.end_depot) {
            Ok(Some(l)) if l != last.dest => legs.push(Some((spec.locs[last.dest].clone(), spec.locs[l].clone(), last.end, LATEST))),
            Ok(Some(_)) => {}
            _ => legs.push(None),
        }
        let wild = legs.iter().filter(|l| l.is_none()).count();
        let firm: Vec<&(String, String, i64, i64)> = legs.iter().flatten().collect();
        // listed trips not touching NOWHERE
        let listed: Vec<&OutDh> = veh.dead_heads.iter().filter(|d| d.origin != "NOWHERE" && d.dest != "NOWHERE").collect();
        let listed_wild = veh.dead_heads.len() - listed.len();
        if listed.len() != firm.len() || listed_wild > wild {
            v.fail("dead-head-set", format!("vehicle {} changes location {} times, lists {} dead-head trips: {:?}", veh.id, firm.len(), listed.len(), veh.dead_heads));
            continue;
        }
        if !firm.is_empty() {
            v.nontrivial = true;
        }
        for (l, d) in firm.iter().zip(listed.iter()) {
            let dep = parse_out_time(&d.dep).unwrap_or(i64::MIN);
            let arr = parse_out_time(&d.arr).unwrap_or(i64::MIN);
            if d.origin != l.0 || d.dest != l.1 {
                v.fail("dead-head-endpoints", format!("vehicle {}: expected dead-head {}->{} but listed {}->{}", veh.id, l.0, l.1, d.origin, d.dest));
            } else if !(l.2 <= dep && dep <= arr && arr <= l.3) {
                v.fail("dead-head-outside-gap", format!("vehicle {}: dead-head {}->{} at [{}, {}] is not inside its gap [{}, {}]", veh.id, l.0, l.1, d.dep, d.arr, l.2, l.3));
            }
        }
    }
    v
}

pub fn c04(spec: &Spec, out: &Out) -> Verdict {
    let mut v = Verdict::new();
    let e = match evaluate(spec, out) {
        Ok(e) => e,
        Err(msg) => {
            v.fail("unevaluable", msg);
            return v;
        }
    };
    let rep = |k: &str| out.objective.get(k).copied().unwrap_or(i64::MIN);
    if rep("unservedPassengers") != e.unserved {
        v.fail("unserved", format!("reported unservedPassengers {} but the schedule leaves {} unserved", rep("unservedPassengers"), e.unserved));
    }
    if rep("vehicleCount") != e.vehicles {
        v.fail("vehicle-count", format!("reported vehicleCount {} but the fleet has {}", rep("vehicleCount"), e.vehicles));
    }
    if e.finite {
        if rep("costs") != e.costs {
            v.fail("costs", format!("reported costs {} but the itineraries cost {}", rep("costs"), e.costs));
        }
        if rep("maintenanceViolation") != e.violation {
            v.fail("maintenance-violation", format!("reported maintenanceViolation {} but the cycles give {}", rep("maintenanceViolation"), e.violation));
        }
    } else {
        if rep("costs") < e.costs {
            v.fail("costs-lower-bound", format!("reported costs {} below the finite part {}", rep("costs"), e.costs));
        }
        if rep("maintenanceViolation") < e.violation {
            v.fail("maintenance-violation-lower-bound", format!("reported maintenanceViolation {} below the finite part {}", rep("maintenanceViolation"), e.violation));
        }
    }
    // non-trivial: something beyond the staff term and a positive or binding maintenance figure
    v.nontrivial = e.finite && (out.vehicles.iter().any(|x| x.acts.len() >= 2) || e.violation > 0 || e.unserved > 0);
    v
}

pub fn c05(spec: &Spec, out: &Out) -> Verdict {
    let mut v = Verdict::new();
    for (t, cycles) in &out.cycles {
        let fleet: Vec<&OutVehicle> = out.vehicles.iter().filter(|x| x.vt == *t).collect();
        let mut count: BTreeMap<&String, usize> = BTreeMap::new();
        for c in cycles {
            for id in c {
                *count.entry(id).or_insert(0) += 1;
            }
        }
        for veh in &fleet {
            match count.get(&veh.id) {
                Some(1) => {}
                Some(n) => v.fail("cycle-partition", format!("vehicle {} appears {} times in the cycles of type {}", veh.id, n, spec.types[*t].id)),
                None => v.fail("cycle-partition", format!("vehicle {} is in no cycle of type {}", veh.id, spec.types[*t].id)),
            }
        }
        for id in count.keys() {
            if !fleet.iter().any(|x| &&x.id == id) {
                v.fail("cycle-partition", format!("cycles of type {} name {} which is not a vehicle of that type", spec.types[*t].id, id));
            }
        }
        for c in cycles {
            for (i, id) in c.iter().enumerate() {
                let nxt = &c[(i + 1) % c.len()];
                if let (Some(a), Some(b)) = (out.vehicle(id), out.vehicle(nxt)) {
                    if a.end_depot != b.start_depot {
                        v.fail("cycle-depot-mismatch", format!("{} ends at {} but its successor {} starts at {}", id, a.end_depot, nxt, b.start_depot));
                    }
                }
            }
        }
        let starts: BTreeSet<&String> = fleet.iter().map(|x| &x.start_depot).collect();
        if fleet.len() >= 2 && starts.len() >= 2 {
            v.nontrivial = true;
        }
    }
    // every type with vehicles must have its cycles reported
    for veh in &out.vehicles {
        if !out.cycles.contains_key(&veh.vt) {
            v.fail("cycle-partition", format!("no cycles reported for the type of vehicle {}", veh.id));
        }
    }
    // consequence: per depot and type, ends = starts
    let mut bal: BTreeMap<(String, usize), i64> = BTreeMap::new();
    for veh in &out.vehicles {
        *bal.entry((veh.start_depot.clone(), veh.vt)).or_insert(0) += 1;
        *bal.entry((veh.end_depot.clone(), veh.vt)).or_insert(0) -= 1;
    }
    for ((d, t), b) in bal {
        if b != 0 {
            v.fail("depot-balance", format!("depot {} type {}: starts minus ends = {}", d, spec.types[t].id, b));
        }
    }
    v
}

pub fn c07(spec: &Spec, out: &Out) -> Verdict {
    let mut v = Verdict::new();
    let lb = spec.unserved_lower_bound();
    let rep = out.objective.get("unservedPassengers").copied().unwrap_or(i64::MIN);
    if rep != lb {
        v.fail("unserved-not-minimal", format!("unservedPassengers is {} but the instance's lower bound is {}", rep, lb));
    }
    for ai in 0..spec.n_segs {
        let f = out.formation_of(spec, ai).unwrap_or_default();
        let req = spec.required(ai);
        if req >= 2 {
            v.nontrivial = true;
        }
        match spec.limit(ai) {
            Some(l) if req > l => {
                if f.len() as i64 != l {
                    v.fail("limit-capped-coverage", format!("{} needs {} vehicles, limit {}, served by {}", spec.acts[ai].id, req, l, f.len()));
                }
            }
            _ => {
                if (f.len() as i64) < req {
                    v.fail("under-coverage", format!("{} needs {} vehicles, served by {}", spec.acts[ai].id, req, f.len()));
                }
            }
        }
    }
    v
}
