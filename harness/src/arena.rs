//! Arena = one instance loaded through the real loader, plus its spec and the node mapping.
#![allow(dead_code)]
use crate::c17::{node_map, spec_can_reach, NodeMap, SNode};
use crate::grammar::Inst;
use crate::spec::Spec;
use model::base_types::{NodeIdx, VehicleIdx, VehicleTypeIdx};
use model::network::Network;
use std::collections::BTreeMap;
use std::sync::Arc;

pub struct Arena {
    pub name: String,
    pub code: String,
    pub input: serde_json::Value,
    pub spec: Spec,
    pub nw: Arc<Network>,
    pub nm: NodeMap,
    pub types: Vec<VehicleTypeIdx>,
    /// VehicleTypeIdx -> spec type index
    pub type_of: BTreeMap<VehicleTypeIdx, usize>,
    /// activities (service + maintenance) sorted by start time
    pub acts: Vec<NodeIdx>,
    pub start_depots: Vec<NodeIdx>,
    pub end_depots: Vec<NodeIdx>,
    /// spec location index of each depot node (None = overflow depot)
    pub depot_loc: BTreeMap<NodeIdx, Option<usize>>,
    /// initial states for the explorers, computed on the (hash-seeded) loading thread
    pub inits: Vec<(&'static str, solution::Schedule)>,
    /// (what, site, message) of panics of the subject while the initial states were computed
    pub init_failures: Vec<(String, String, String)>,
}

impl Arena {
    pub fn load(name: &str, code: &str) -> Arena {
        let inst = Inst::from_code(code).expect("arena code");
        Arena::from_input(name, code, inst.to_json())
    }

    /// network + spec + node map + initial states (empty, flow start, improved flow start)
    pub fn from_input(name: &str, code: &str, input: serde_json::Value) -> Arena {
        on_fresh_seeded_thread(1, move || {
            let mut a = Arena::build(name, code, input);
            let empty = solution::Schedule::empty(a.nw.clone());
            a.inits = vec![("empty", empty)];
            // the other initial states come from the subject itself; a panic there is the subject's, not ours
            let nw = a.nw.clone();
            let _ = crate::pool::take_last_panic();
            match std::panic::catch_unwind(std::panic::AssertUnwindSafe(|| solver::min_cost_flow_solver::MinCostFlowSolver::initialize(nw).solve())) {
                Ok(start) => {
                    a.inits.push(("min_cost_flow", start.clone()));
                    // the flow start with every vehicle turned into a dummy: dummy tours with several activities
                    match std::panic::catch_unwind(std::panic::AssertUnwindSafe(|| {
                        let mut s = start.clone();
                        let vs: Vec<_> = s.vehicles_iter_all().collect();
                        for v in vs {
                            s = s.replace_vehicle_by_dummy(v).expect("replace_vehicle_by_dummy of a real vehicle");
                        }
                        s
                    })) {
                        Ok(all_dummies) => a.inits.push(("min_cost_flow-all-vehicles-made-dummies", all_dummies)),
                        Err(_) => {
                            let (site, msg) = crate::pool::take_last_panic().unwrap_or(("?".into(), "?".into()));
                            a.init_failures.push(("replace_vehicle_by_dummy on every vehicle of the min-cost-flow start solution".into(), site, msg));
                        }
                    }
                    match std::panic::catch_unwind(std::panic::AssertUnwindSafe(|| start.improve_depots(None))) {
                        Ok(improved) => a.inits.push(("min_cost_flow+improve_depots", improved)),
                        Err(_) => {
                            let (site, msg) = crate::pool::take_last_panic().unwrap_or(("?".into(), "?".into()));
                            a.init_failures.push(("improve_depots(None) on the min-cost-flow start solution".into(), site, msg));
                        }
                    }
                }
                Err(_) => {
                    let (site, msg) = crate::pool::take_last_panic().unwrap_or(("?".into(), "?".into()));
                    a.init_failures.push(("MinCostFlowSolver::solve (Schedule::from_tours / spawn_vehicle_for_path)".into(), site, msg));
                }
            }
            a
        })
    }

    /// network, spec and node map only (no solver run)
    pub fn load_no_inits(name: &str, code: &str) -> Arena {
        let inst = Inst::from_code(code).expect("arena code");
        Arena::from_input_no_inits(name, code, inst.to_json(), 1)
    }

    pub fn from_input_no_inits(name: &str, code: &str, input: serde_json::Value, seed: u64) -> Arena {
        on_fresh_seeded_thread(seed, move || Arena::build(name, code, input))
    }

    /// must run on a freshly seeded thread (see `on_fresh_seeded_thread`)
    fn build(name: &str, code: &str, input: serde_json::Value) -> Arena {
        let spec = Spec::from_input(&input).expect("spec");
        let nw = model::json_serialisation::load_rolling_stock_problem_instance_from_json(input.clone());
        let mut viol = vec![];
        let nm = node_map(&spec, &nw, &mut viol);
        assert!(viol.is_empty(), "arena network does not match its input: {:?}", viol);
        let types: Vec<VehicleTypeIdx> = nw.vehicle_types().iter().collect();
        let mut type_of = BTreeMap::new();
        for vt in &types {
            let id = nw.vehicle_types().get(*vt).unwrap().id().clone();
            type_of.insert(*vt, spec.type_by_id(&id).expect("type"));
        }
        let acts: Vec<NodeIdx> = nw.all_nodes().filter(|n| !nw.node(*n).is_depot()).collect();
        let mut start_depots: Vec<NodeIdx> = nw.start_depot_nodes().collect();
        let mut end_depots: Vec<NodeIdx> = nw.end_depot_nodes().collect();
        start_depots.sort();
        end_depots.sort();
        let mut depot_loc = BTreeMap::new();
        for &d in start_depots.iter().chain(end_depots.iter()) {
            let dep = nw.get_depot(nw.get_depot_idx(d));
            let loc = if dep.id() == crate::spec::OVERFLOW_DEPOT_ID { None } else { spec.loc_by_id(&nw.locations().get_id(dep.location()).unwrap()) };
            depot_loc.insert(d, loc);
        }
        let inits = vec![];
        Arena { name: name.to_string(), code: code.to_string(), input, spec, nw, nm, types, type_of, acts, start_depots, end_depots, depot_loc, inits, init_failures: vec![] }
    }

    pub fn snode(&self, n: NodeIdx) -> SNode {
        *self.nm.of.get(&n).expect("node in map")
    }

    /// reachability by the documented rule (spec side)
    pub fn reach(&self, a: NodeIdx, b: NodeIdx) -> bool {
        spec_can_reach(&self.spec, self.snode(a), self.snode(b))
    }

    pub fn act_idx(&self, n: NodeIdx) -> Option<usize> {
        match self.snode(n) {
            SNode::Act(i) => Some(i),
            _ => None,
        }
    }

    pub fn is_depot(&self, n: NodeIdx) -> bool {
        !matches!(self.snode(n), SNode::Act(_))
    }

    pub fn is_service(&self, n: NodeIdx) -> bool {
        self.act_idx(n).map(|i| self.spec.acts[i].is_seg()).unwrap_or(false)
    }

    pub fn is_slot(&self, n: NodeIdx) -> bool {
        self.act_idx(n).map(|i| self.spec.acts[i].is_slot()).unwrap_or(false)
    }

    pub fn compatible(&self, n: NodeIdx, vt: VehicleTypeIdx) -> bool {
        match self.act_idx(n).and_then(|i| self.spec.acts[i].vt()) {
            Some(t) => Some(&t) == self.type_of.get(&vt),
            None => true,
        }
    }

    /// all chains of 1..=maxlen activities compatible with `vt` (None: any) that are pairwise consecutive-connectable
    pub fn chains(&self, vt: Option<VehicleTypeIdx>, maxlen: usize) -> Vec<Vec<NodeIdx>> {
        let cand: Vec<NodeIdx> = self.acts.iter().copied().filter(|n| vt.map(|t| self.compatible(*n, t)).unwrap_or(true)).collect();
        let mut out: Vec<Vec<NodeIdx>> = vec![];
        fn rec(a: &Arena, cand: &[NodeIdx], cur: &mut Vec<NodeIdx>, maxlen: usize, out: &mut Vec<Vec<NodeIdx>>) {
            if !cur.is_empty() {
                out.push(cur.clone());
            }
            if cur.len() == maxlen {
                return;
            }
            for &n in cand {
                if cur.last().map(|&l| a.nw.can_reach(l, n)).unwrap_or(true) {
                    cur.push(n);
                    rec(a, cand, cur, maxlen, out);
                    cur.pop();
                }
            }
        }
        rec(self, &cand, &mut vec![], maxlen, &mut out);
        out.sort_by_key(|c| c.len());
        out
    }
}

static LOAD_LOCK: std::sync::Mutex<()> = std::sync::Mutex::new(());

/// Run `f` on a new thread whose `RandomState` keys come from the stream freshly seeded with `seed`:
/// the hash orders inside `f` (defaulted depot indices, vehicle ids of the flow start solution) are
/// then a function of `seed` and the input only - not of how many hash maps the calling thread
/// created before (building or parsing the input JSON creates some).
pub fn on_fresh_seeded_thread<T: Send>(seed: u64, f: impl FnOnce() -> T + Send) -> T {
    let _g = LOAD_LOCK.lock().unwrap_or_else(|e| e.into_inner());
    crate::hashseed::reset(seed);
    std::thread::scope(|s| s.spawn(f).join().expect("seeded thread"))
}

pub fn vname(v: VehicleIdx) -> String {
    v.to_string()
}

pub fn parse_vehicle(s: &str) -> Option<VehicleIdx> {
    if let Some(r) = s.strip_prefix("veh_") {
        r.parse().ok().map(VehicleIdx::Vehicle)
    } else if let Some(r) = s.strip_prefix("dummy_") {
        r.parse().ok().map(VehicleIdx::Dummy)
    } else {
        None
    }
}

pub fn parse_node(s: &str) -> Option<NodeIdx> {
    if let Some(r) = s.strip_prefix("sdep_") {
        r.parse().ok().map(NodeIdx::StartDepot)
    } else if let Some(r) = s.strip_prefix("trip_") {
        r.parse().ok().map(NodeIdx::Service)
    } else if let Some(r) = s.strip_prefix("main_") {
        r.parse().ok().map(NodeIdx::Maintenance)
    } else if let Some(r) = s.strip_prefix("edep_") {
        r.parse().ok().map(NodeIdx::EndDepot)
    } else {
        None
    }
}
