//! Engine A: instance sweep. Every instance of the tier's grammar x hash seed is run through the
//! real code in a worker process; the property's oracle is evaluated on each result.
use crate::evidence::*;
use crate::grammar::*;
use crate::oracles;
use crate::pool::{self, Outcome};
use crate::spec::{Out, Spec};
use serde_json::{json, Value};
use std::collections::{BTreeMap, BTreeSet};
use std::sync::Mutex;
use std::time::Duration;

pub const HORIZON: Duration = Duration::from_secs(10);
/// stop dispatching after this many tasks exceeded the horizon
pub const HANG_CAP: usize = 24;

pub fn nworkers() -> usize {
    std::env::var("RSV_WORKERS").ok().and_then(|s| s.parse().ok()).unwrap_or_else(|| 2 * std::thread::available_parallelism().map(|n| n.get()).unwrap_or(8)) // tasks spend part of their time waiting (thread spawn, pipes): two workers per core
}

pub struct Tier {
    pub insts: Vec<Inst>,
    pub seeds: Vec<u64>,
    pub describe: String,
}

/// loader-only sweeps are ~20x cheaper than solves: their quick tier uses the thorough instance set with one hash seed
pub fn tier_rich(tier_name: &str) -> Tier {
    if tier_name == "thorough" {
        return tier(tier_name, false);
    }
    let mut t = tier("thorough", false);
    t.seeds.truncate(1);
    t.describe = format!("(loader-only check: thorough instance set, one hash seed) {}", t.describe);
    t
}

pub fn tier(tier: &str, only_maintenance: bool) -> Tier {
    let off = verif_seed().unsigned_abs() * 100;
    let bases = [BASE0, BASE1, BASE2, BASE3];
    let quick_set = instances(&bases, 1, 2);
    let (mut insts, seeds, describe) = if tier == "thorough" {
        // everything of the quick tier, plus - with the demand levels {no passengers, two vehicles} - one
        // more trip (<=1 deviation x <=3 trips) and one more deviation (<=2 deviations x <=2 trips)
        let mut v = quick_set;
        let mut seen: std::collections::HashSet<Inst> = v.iter().cloned().collect();
        let two_levels = |t: &Trip| t.dem == 0 || t.dem == 2;
        for b in bases {
            for (dev, ntrips) in [(1usize, 3usize), (2, 2)] {
                for cfg in configs(b, dev) {
                    let cat: Vec<Trip> = catalogue(&cfg).into_iter().filter(two_levels).collect();
                    for trips in trip_multisets(&cat, ntrips) {
                        let i = Inst { cfg, trips };
                        if seen.insert(i.clone()) {
                            v.push(i);
                        }
                    }
                }
            }
        }
        (v, vec![1 + off, 2 + off, 3 + off], "bases {no maintenance; one slot x 2 tracks with binding maximalDistance; a slot overlapping/tying the trips with binding maximalDistance; one depot of capacity 1 + two-track slot + maximalDistance 30 000 km}: the quick set (<=1 config deviation x <=2 trips, 4 demand levels) U, with demand levels {0 passengers, 2 vehicles}, (<=1 deviation x <=3 trips) U (<=2 deviations x <=2 trips); 3 hash seeds".to_string())
    } else {
        (quick_set, vec![1 + off, 2 + off], "bases {no maintenance; one slot x 2 tracks with binding maximalDistance; a slot overlapping/tying the trips with binding maximalDistance; one depot of capacity 1 + two-track slot + maximalDistance 30 000 km}: <=1 config deviation x <=2 trips; 2 hash seeds".to_string())
    };
    // deep family (all tiers): three trips on the two maintenance bases under every cost model, demand
    // levels {no passengers, two vehicles} - longer local-search trajectories with trade-offs between
    // vehicle count and costs
    {
        let mut seen: std::collections::HashSet<Inst> = insts.iter().cloned().collect();
        for base in [BASE1, BASE2] {
            for costs in 0..DIMS[D_COSTS].1 {
                let mut cfg = base;
                cfg[D_COSTS] = costs;
                let cat: Vec<Trip> = catalogue(&cfg).into_iter().filter(|t| t.dem == 0 || t.dem == 2).collect();
                for trips in trip_multisets(&cat, 3) {
                    let i = Inst { cfg, trips };
                    if seen.insert(i.clone()) {
                        insts.push(i);
                    }
                }
            }
        }
    }
    // track-hungry family (all tiers): one slot x 4 tracks with a maximal distance of a fifth of a trip (every
    // track is handed out and must carry a vehicle) under every depot model x <=2 trips
    {
        let mut seen: std::collections::HashSet<Inst> = insts.iter().cloned().collect();
        for depots in 0..DIMS[D_DEPOTS].1 {
            let mut cfg = BASE0;
            cfg[D_MAINT] = 6;
            cfg[D_MAXDIST] = 3;
            cfg[D_DEPOTS] = depots;
            for trips in trip_multisets(&catalogue(&cfg), 2) {
                let i = Inst { cfg, trips };
                if seen.insert(i.clone()) {
                    insts.push(i);
                }
            }
        }
    }
    // co-located family (all tiers): L1 and L2 are the same place (0 s / 0 m apart) under every shunting model x <=2 trips
    // (a dead-head of no duration beats the minimal shunting time of staying put)
    {
        let mut seen: std::collections::HashSet<Inst> = insts.iter().cloned().collect();
        for shunt in 0..DIMS[D_SHUNT].1 {
            let mut cfg = BASE0;
            cfg[D_DH] = 5;
            cfg[D_SHUNT] = shunt;
            for trips in trip_multisets(&catalogue(&cfg), 2) {
                let i = Inst { cfg, trips };
                if seen.insert(i.clone()) {
                    insts.push(i);
                }
            }
        }
    }
    // zero-allowance family (all tiers): slots given but parameters.maintenance absent (maximal distance 0: every
    // kilometre counts as violation, the local search drives every vehicle through the slots) under every
    // dead-head matrix x <=2 trips
    {
        let mut seen: std::collections::HashSet<Inst> = insts.iter().cloned().collect();
        for dh in 0..DIMS[D_DH].1 {
            let mut cfg = BASE0;
            cfg[D_MAINT] = 5;
            cfg[D_DH] = dh;
            for trips in trip_multisets(&catalogue(&cfg), 2) {
                let i = Inst { cfg, trips };
                if seen.insert(i.clone()) {
                    insts.push(i);
                }
            }
        }
    }
    // tight-detour family (all tiers): minimal shunting 900 s, dead-heads of 60 s, a five-minute slot at L0 between
    // an arrival at L1 (09:00) and a departure there (09:10) - reachable only through the detour - plus a later slot;
    // every maximal distance x <=2 trips, and 3 trips without passengers
    {
        let mut seen: std::collections::HashSet<Inst> = insts.iter().cloned().collect();
        for maxdist in 0..DIMS[D_MAXDIST].1 {
            let mut cfg = BASE0;
            cfg[D_SHUNT] = 4;
            cfg[D_DH] = 4;
            cfg[D_MAINT] = 8;
            cfg[D_MAXDIST] = maxdist;
            let full = catalogue(&cfg);
            let mut sets = trip_multisets(&full, 2);
            let none: Vec<Trip> = full.iter().copied().filter(|t| t.dem == 0).collect();
            sets.extend(trip_multisets(&none, 3).into_iter().filter(|m| m.len() == 3));
            for trips in sets {
                let i = Inst { cfg, trips };
                if seen.insert(i.clone()) {
                    insts.push(i);
                }
            }
        }
    }
    // rich family (all tiers): <=1 deviation from the rich base (two types, two-segment routes limited on the
    // first segment only, dead-head shunting, a depot with mixed per-type limits, two co-located locations,
    // a two-track slot) x <=2 trips; quick: demand levels {0, 2 vehicles}; thorough: all four levels, plus
    // three trips that all need two vehicles
    {
        let mut seen: std::collections::HashSet<Inst> = insts.iter().cloned().collect();
        for cfg in configs(BASE4, 1) {
            let full = catalogue(&cfg);
            let two: Vec<Trip> = full.iter().copied().filter(|t| t.dem == 0 || t.dem == 2).collect();
            let mut sets = if tier == "thorough" { trip_multisets(&full, 2) } else { trip_multisets(&two, 2) };
            if tier == "thorough" {
                let only2: Vec<Trip> = full.iter().copied().filter(|t| t.dem == 2).collect();
                sets.extend(trip_multisets(&only2, 3).into_iter().filter(|m| m.len() == 3));
            }
            for trips in sets {
                let i = Inst { cfg, trips };
                if seen.insert(i.clone()) {
                    insts.push(i);
                }
            }
        }
    }
    let describe = format!("{}; plus the deep family: both maintenance bases x 5 cost models x <=3 trips with demand in {{0 passengers, 2 vehicles}}; plus the co-located family: L1/L2 0 s apart x every shunting model x <=2 trips; plus the zero-allowance family: a slot with parameters.maintenance absent x every dead-head matrix x <=2 trips; plus the tight-detour family: shunting (900,0), 60 s dead-heads, a five-minute slot reachable only by a detour + a later slot, every maximalDistance x (<=2 trips U 3 trips without passengers); plus the track-hungry family: one slot x 4 tracks, maximalDistance 10 km, every depot model x <=2 trips; plus the rich family: <=1 deviation from the rich base (types A+B, two-segment routes limited on the first segment only, dead-head shunting 300 s, one depot of total 2 with mixed per-type limits, L1 and L2 co-located, two-track slot with binding maximalDistance) x <=2 trips ({})", describe, if tier == "thorough" { "all demand levels, plus 3 trips needing two vehicles each" } else { "demand in {0 passengers, 2 vehicles}" });
    if only_maintenance {
        insts.retain(|i| i.has_maintenance());
    }
    // debugging aid (not used by registered commands): keep only instances whose description contains all tokens
    if let Ok(f) = std::env::var("RSV_FILTER") {
        let toks: Vec<String> = f.split_whitespace().map(|s| s.to_string()).collect();
        insts.retain(|i| {
            let d = i.describe();
            toks.iter().all(|t| d.contains(t.as_str()))
        });
    }
    Tier { insts, seeds, describe }
}

// ------------------------------------------------------------------------------------------------
// worker side
// ------------------------------------------------------------------------------------------------

fn input_of(task: &Value) -> Result<Value, String> {
    if let Some(inp) = task.get("input") {
        return Ok(inp.clone());
    }
    let code = task.get("code").and_then(|c| c.as_str()).ok_or("task without code or input")?;
    Ok(Inst::from_code(code)?.to_json())
}

fn verdict_json(v: oracles::Verdict) -> Value {
    json!({"nt": v.nontrivial, "viol": v.violations.iter().map(|(c, d)| json!([c, d])).collect::<Vec<_>>()})
}

/// kind = "solve": run server::solve_instance and evaluate the requested output-level oracles
pub fn worker_solve(task: &Value) -> Value {
    let input = match input_of(task) {
        Ok(i) => i,
        Err(e) => return json!({"status": "machinery", "msg": e}),
    };
    let seed = task.get("seed").and_then(|s| s.as_u64()).unwrap_or(1);
    let props: Vec<String> = task.get("props").and_then(|p| p.as_array()).map(|a| a.iter().filter_map(|x| x.as_str().map(|s| s.to_string())).collect()).unwrap_or_default();
    let spec = match Spec::from_input(&input) {
        Ok(s) => s,
        Err(e) => return json!({"status": "machinery", "msg": format!("spec cannot read the input: {}", e)}),
    };
    let inp2 = input.clone();
    let want_hooks = props.iter().any(|p| p == "C08" || p == "C16" || p == "C07" || p == "C15");
    let res = pool::run_isolated(seed, move || {
        let _ = solver::verif_hooks::take_steps();
        let _ = solver::verif_hooks::take_stages();
        let out = server::solve_instance(inp2);
        let steps = solver::verif_hooks::take_steps();
        let stages = solver::verif_hooks::take_stages();
        let mut extra = serde_json::Map::new();
        if want_hooks {
            extra.insert("hooks".into(), crate::stages::evaluate(&steps, &stages, &out));
        }
        (out, Value::Object(extra))
    });
    let (out, extra) = match res {
        Ok(x) => x,
        Err((site, msg)) => return json!({"status": "panic", "site": site, "msg": msg}),
    };
    let mut results = serde_json::Map::new();
    let parsed = Out::parse(&spec, &out);
    let digest_s = digest(&serde_json::to_string(out.get("schedule").unwrap_or(&Value::Null)).unwrap());
    for p in &props {
        let r = match (p.as_str(), &parsed) {
            ("C06", _) => {
                // regions named by the property: coupled vehicles, ties, scarce or absent depot capacity, several one-vehicle rotation cycles
                let coupled = (0..spec.n_segs).any(|i| spec.required(i) >= 2);
                let need: i64 = (0..spec.n_segs).map(|i| spec.cover_lb(i)).sum();
                let scarce = spec.depots_given && spec.depots.iter().map(|d| d.total.unwrap_or(i64::MAX / 4)).sum::<i64>() < need;
                let singles = parsed.as_ref().ok().map(|o| o.cycles.values().any(|cs| cs.iter().filter(|c| c.len() == 1).count() >= 2)).unwrap_or(false);
                json!({"nt": coupled || scarce || singles || spec.has_tie(), "viol": []})
            }
            ("C08", _) | ("C16", _) | ("C15", _) => extra.get("hooks").and_then(|h| h.get(p.as_str())).cloned().unwrap_or(json!({"nt": false, "viol": [["machinery", "no hook data"]]})),
            (_, Err(e)) => {
                if p == "C03" {
                    json!({"nt": false, "viol": [["output-unreadable", e]]})
                } else {
                    json!({"nt": false, "viol": [], "skipped": format!("output unreadable: {}", e)})
                }
            }
            ("C01", Ok(o)) => verdict_json(oracles::c01(&spec, o)),
            ("C02", Ok(o)) => verdict_json(oracles::c02(&spec, o)),
            ("C03", Ok(o)) => verdict_json(oracles::c03(&spec, o, &out)),
            ("C04", Ok(o)) => verdict_json(oracles::c04(&spec, o)),
            ("C05", Ok(o)) => verdict_json(oracles::c05(&spec, o)),
            ("C07", Ok(o)) => {
                let mut v = oracles::c07(&spec, o);
                if let Some(extra_viol) = extra.get("hooks").and_then(|h| h.get("C07")).and_then(|x| x.get("viol")).and_then(|x| x.as_array()) {
                    for e in extra_viol {
                        v.violations.push((e[0].as_str().unwrap_or("").to_string(), e[1].as_str().unwrap_or("").to_string()));
                    }
                }
                verdict_json(v)
            }
            _ => json!({"nt": false, "viol": [["machinery", format!("unknown property {}", p)]]}),
        };
        results.insert(p.clone(), r);
    }
    let summary = parsed.as_ref().ok().map(|o| {
        json!({"vehicles": o.vehicles.len(), "objective": o.objective, "overflow": o.uses_overflow()})
    });
    let mut r = json!({"status": "ok", "results": results, "digest": digest_s, "summary": summary});
    if task.get("want_output").and_then(|x| x.as_bool()).unwrap_or(false) {
        r["output"] = out;
    }
    r
}

/// kind = "load": run the loader only and compare the Network with the input (C17)
pub fn worker_load(task: &Value) -> Value {
    let input = match input_of(task) {
        Ok(i) => i,
        Err(e) => return json!({"status": "machinery", "msg": e}),
    };
    let seed = task.get("seed").and_then(|s| s.as_u64()).unwrap_or(1);
    let spec = match Spec::from_input(&input) {
        Ok(s) => s,
        Err(e) => return json!({"status": "machinery", "msg": format!("spec cannot read the input: {}", e)}),
    };
    let res = pool::run_isolated(seed, move || {
        let nw = model::json_serialisation::load_rolling_stock_problem_instance_from_json(input);
        let (viol, nt) = crate::c17::check(&spec, &nw);
        (viol, nt, nw.size())
    });
    match res {
        Ok((viol, nt, size)) => json!({
            "status": "ok",
            "results": {"C17": {"nt": nt, "viol": viol.iter().map(|(c, d)| json!([c, d])).collect::<Vec<_>>()}},
            "digest": format!("nodes={}", size),
            "summary": {"nodes": size},
        }),
        Err((site, msg)) => json!({"status": "panic", "site": site, "msg": msg}),
    }
}

/// kind = "flow": run MinCostFlowSolver::solve only and compare with the independent optimum (C14)
pub fn worker_flow(task: &Value) -> Value {
    let input = match input_of(task) {
        Ok(i) => i,
        Err(e) => return json!({"status": "machinery", "msg": e}),
    };
    let seed = task.get("seed").and_then(|s| s.as_u64()).unwrap_or(1);
    let spec = match Spec::from_input(&input) {
        Ok(s) => s,
        Err(e) => return json!({"status": "machinery", "msg": format!("spec cannot read the input: {}", e)}),
    };
    if !crate::c14::in_scope(&spec) {
        return json!({"status": "ok", "results": {"C14": {"nt": false, "viol": [], "skipped": "out of scope: depot totals couple the vehicle types"}}, "digest": "out-of-scope", "summary": {"scope": false}});
    }
    let res = pool::run_isolated(seed, move || {
        let a = crate::arena::Arena::from_input_no_inits("c14", "", input, seed);
        let start = solver::min_cost_flow_solver::MinCostFlowSolver::initialize(a.nw.clone()).solve();
        let (viol, nt) = crate::c14::check(&a, &start);
        (viol, nt, crate::canon::tours_key(&start), start.number_of_vehicles(), start.costs())
    });
    match res {
        Ok((viol, nt, key, nv, costs)) => json!({
            "status": "ok",
            "results": {"C14": {"nt": nt, "viol": viol.iter().map(|(c, d)| json!([c, d])).collect::<Vec<_>>()}},
            "digest": digest(&key),
            "summary": {"vehicles": nv, "costs": costs},
        }),
        Err((site, msg)) => json!({"status": "panic", "site": site, "msg": msg}),
    }
}

// ------------------------------------------------------------------------------------------------
// driver side
// ------------------------------------------------------------------------------------------------

#[derive(Default)]
struct Agg {
    evaluations: usize,
    ok: usize,
    solve_failed: usize,
    skipped: usize,
    nontrivial: BTreeSet<usize>,
    digests: BTreeSet<String>,
    violations: Vec<(usize, u64, String, String)>, // (instance idx, seed, clause, detail)
    violation_count: usize,
    clause_counts: BTreeMap<String, usize>,
    hangs: usize,
    failures: Vec<(usize, u64, String, String)>, // (instance idx, seed, signature, what) panics/hangs/crashes
    failure_kinds: BTreeMap<String, usize>,
    failure_count: usize,
    samples: Vec<Value>,
    machinery: Option<String>,
}

impl Agg {
    /// keep at most 8 examples per kind of failure (panic call site, hang, crash)
    fn push_failure(&mut self, f: (usize, u64, String, String)) {
        let kind = if f.2.starts_with("panic:") { f.2.clone() } else { f.2.split(':').next().unwrap_or("").to_string() };
        let c = self.failure_kinds.entry(kind).or_insert(0);
        *c += 1;
        if *c <= 8 {
            self.failures.push(f);
        }
    }
}

pub struct SweepSpec<'a> {
    pub prop: &'a str,
    pub kind: &'a str, // "solve" | "load" | "flow"
    pub only_maintenance: bool,
    pub level: &'a str,
    pub rule: &'a str,
    pub assumptions: Vec<&'a str>,
    /// failures of the solve itself are verdicts (C06) rather than skips
    pub failures_are_verdicts: bool,
    pub exe: Option<std::path::PathBuf>,
    pub extra_label: &'a str,
    /// use only the first n hash seeds of the tier (None = all)
    pub max_seeds: Option<usize>,
}

pub fn task_json(kind: &str, prop: &str, inst: &Inst, seed: u64) -> Value {
    json!({"kind": kind, "code": inst.code(), "seed": seed, "props": [prop]})
}

fn run_once(exe: &std::path::Path, payload: &Value) -> Result<Outcome, String> {
    let res: Mutex<Option<Outcome>> = Mutex::new(None);
    pool::run_tasks(exe, 1, 1, HORIZON * 3, &|_| payload.clone(), &|_, o| *res.lock().unwrap() = Some(o)).map_err(|e| e.0)?;
    res.into_inner().unwrap().ok_or_else(|| "no outcome".to_string())
}

fn outcome_fingerprint(o: &Outcome, prop: &str) -> String {
    match o {
        Outcome::Hang => "hang".into(),
        Outcome::Crash(s) => format!("crash:{}", s),
        Outcome::Done(v) => {
            let st = v.get("status").and_then(|s| s.as_str()).unwrap_or("?");
            if st == "panic" {
                format!("panic:{}:{}", v["site"].as_str().unwrap_or(""), v["msg"].as_str().unwrap_or(""))
            } else {
                format!("{}:{}:{}", st, v["digest"].as_str().unwrap_or(""), v["results"][prop]["viol"])
            }
        }
    }
}

/// Run the sweep for one property and one binary; returns the aggregated counters merged into `report`.
pub fn run(spec: &SweepSpec, tier_name: &str, report: &mut Report) {
    let mut t = if spec.kind == "load" { tier_rich(tier_name) } else { tier(tier_name, spec.only_maintenance) };
    if spec.prop == "C06" {
        // C06 only: "unreachable" markers in the dead-head matrix (durations far above the planning horizon, which
        // the loader replaces by the planning duration).  The other oracles compare with the documented timing
        // rule on the values as given, so these instances are kept out of their sweeps.
        let mut n = 0;
        for shunt in [0u8, 1] {
            for maint in [0u8, 2] {
                let mut cfg = BASE0;
                cfg[D_DH] = 6;
                cfg[D_DEPOTS] = 11;
                cfg[D_SHUNT] = shunt;
                cfg[D_MAINT] = maint;
                cfg[D_MAXDIST] = if maint == 0 { 0 } else { 1 };
                for trips in trip_multisets(&catalogue(&cfg), 2) {
                    t.insts.push(Inst { cfg, trips });
                    n += 1;
                }
            }
        }
        t.describe = format!("{}; plus (this check only) the unreachable-marker family: L2 connected by dead-head durations of 99 999 999 999 s (four entries above the planning horizon) but only 2 km away, one depot of capacity 1 at L0 and a depot at L2, shunting {{(0,0),(300,0)}} x maintenance {{none, two-track slot}} x <=2 trips ({} instances)", t.describe, n);
    }
    if let Some(n) = spec.max_seeds {
        t.seeds.truncate(n);
    }
    let exe = spec.exe.clone().unwrap_or_else(|| std::env::current_exe().expect("current exe"));
    let ntasks = t.insts.len() * t.seeds.len();
    let agg = Mutex::new(Agg::default());
    let nseeds = t.seeds.len();
    let make = |i: usize| task_json(spec.kind, spec.prop, &t.insts[i / nseeds], t.seeds[i % nseeds]);
    let on_result = |i: usize, o: Outcome| {
        let (ii, seed) = (i / nseeds, t.seeds[i % nseeds]);
        let mut a = agg.lock().unwrap();
        a.evaluations += 1;
        let code = t.insts[ii].code();
        match o {
            Outcome::Hang => {
                a.hangs += 1;
                a.solve_failed += 1;
                a.failure_count += 1;
                a.push_failure((ii, seed, format!("hang:{}#{}", code, seed), format!("no answer within {}s on {} (hash seed {})", HORIZON.as_secs(), t.insts[ii].describe(), seed)));
            }
            Outcome::Crash(s) => {
                a.solve_failed += 1;
                a.failure_count += 1;
                a.push_failure((ii, seed, format!("crash:{}#{}", code, seed), format!("worker died ({}) on {} (hash seed {})", s, t.insts[ii].describe(), seed)));
            }
            Outcome::Done(v) => match v.get("status").and_then(|s| s.as_str()) {
                Some("panic") => {
                    a.solve_failed += 1;
                    a.failure_count += 1;
                    let site = site_without_line(v["site"].as_str().unwrap_or("?"));
                    let msg: String = v["msg"].as_str().unwrap_or("").chars().take(60).collect();
                    a.push_failure((ii, seed, format!("panic:{}:{}", site, msg), format!("panic at {} \"{}\" on {} (hash seed {})", v["site"].as_str().unwrap_or("?"), msg, t.insts[ii].describe(), seed)));
                }
                Some("ok") => {
                    a.ok += 1;
                    if let Some(d) = v.get("digest").and_then(|d| d.as_str()) {
                        if a.digests.len() < 2_000_000 {
                            a.digests.insert(d.to_string());
                        }
                    }
                    let r = &v["results"][spec.prop];
                    if r.get("skipped").is_some() {
                        a.skipped += 1;
                    }
                    if r["nt"].as_bool().unwrap_or(false) {
                        a.nontrivial.insert(ii);
                    }
                    for e in r["viol"].as_array().into_iter().flatten() {
                        a.violation_count += 1;
                        let clause = e[0].as_str().unwrap_or("").to_string();
                        let cnt = {
                            let c = a.clause_counts.entry(clause).or_insert(0);
                            *c += 1;
                            *c
                        };
                        if e[0].as_str() == Some("machinery") {
                            a.machinery = Some(e[1].as_str().unwrap_or("").to_string());
                        }
                        if cnt <= 40 {
                            a.violations.push((ii, seed, e[0].as_str().unwrap_or("").to_string(), e[1].as_str().unwrap_or("").to_string()));
                        }
                    }
                    if a.samples.len() < 3 && (r["nt"].as_bool().unwrap_or(false) || i < 2) {
                        a.samples.push(json!({"instance": t.insts[ii].describe(), "code": code, "hash_seed": seed, "result": v.get("summary").cloned().unwrap_or(Value::Null)}));
                    }
                }
                _ => {
                    a.machinery = Some(format!("worker answered: {}", v));
                }
            },
        }
    };
    // a hang costs a whole horizon; stop dispatching once many tasks hung (reported as a cap)
    let stop = || agg.lock().unwrap().hangs >= HANG_CAP;
    let dispatched = match pool::run_tasks_stoppable(&exe, ntasks, nworkers(), HORIZON, &make, &on_result, &stop) {
        Ok(d) => d,
        Err(e) => machinery_error(spec.prop, &e.0),
    };
    let mut a = agg.into_inner().unwrap();
    let capped = dispatched < ntasks;
    if let Some(m) = a.machinery.take() {
        machinery_error(spec.prop, &m);
    }

    // collect candidate violations, smallest instance first
    let mut cands: Vec<(usize, u64, String, String)> = vec![]; // (inst, seed, signature, what)
    a.violations.sort();
    // one representative (smallest instance) per clause first, then the rest
    let mut first_of_clause: Vec<(usize, u64, String, String)> = vec![];
    let mut rest: Vec<(usize, u64, String, String)> = vec![];
    let mut seen_clause = BTreeSet::new();
    for v in a.violations.drain(..) {
        if seen_clause.insert(v.2.clone()) {
            first_of_clause.push(v);
        } else {
            rest.push(v);
        }
    }
    first_of_clause.extend(rest);
    a.violations = first_of_clause;
    for (ii, seed, clause, detail) in &a.violations {
        cands.push((*ii, *seed, format!("{}:{}#{}", clause, t.insts[*ii].code(), seed), format!("{}: {} -- instance {} (hash seed {})", clause, detail, t.insts[*ii].describe(), seed)));
    }
    if spec.failures_are_verdicts {
        a.failures.sort();
        for f in &a.failures {
            cands.push(f.clone());
        }
    }
    // confirm determinism of the first few by replaying twice in fresh workers
    let mut confirmed = 0;
    let mut seen_sig = BTreeSet::new();
    for (ii, seed, sig, what) in cands {
        if !seen_sig.insert(sig.clone()) {
            report.violation_total += 1;
            continue;
        }
        let payload = task_json(spec.kind, spec.prop, &t.insts[ii], seed);
        if confirmed < 4 {
            let r1 = run_once(&exe, &payload).unwrap_or_else(|e| machinery_error(spec.prop, &e));
            let r2 = run_once(&exe, &payload).unwrap_or_else(|e| machinery_error(spec.prop, &e));
            let (f1, f2) = (outcome_fingerprint(&r1, spec.prop), outcome_fingerprint(&r2, spec.prop));
            if f1 != f2 {
                machinery_error(spec.prop, &format!("replay of {} diverged: '{}' vs '{}'", sig, f1, f2));
            }
            let still = match &r1 {
                Outcome::Done(v) if v["status"] == "ok" => v["results"][spec.prop]["viol"].as_array().map(|x| !x.is_empty()).unwrap_or(false),
                _ => spec.failures_are_verdicts,
            };
            if !still {
                machinery_error(spec.prop, &format!("violation {} did not reproduce on replay ({})", sig, f1));
            }
            confirmed += 1;
        }
        let mut replay = payload.clone();
        replay["input"] = t.insts[ii].to_json();
        replay["instance"] = json!(t.insts[ii].describe());
        replay["exe_label"] = json!(spec.extra_label);
        report.violation(Violation { signature: sig, what, replay });
    }

    let label = if spec.extra_label.is_empty() { String::new() } else { format!("{}_", spec.extra_label) };
    let add = |report: &mut Report, k: &str, v: Value| {
        report.cov(&format!("{}{}", label, k), v);
    };
    let prev_eval = report.coverage.get("evaluations").and_then(|x| x.as_u64()).unwrap_or(0);
    let prev_nt = report.coverage.get("distinct_nontrivial").and_then(|x| x.as_u64()).unwrap_or(0);
    report.cov("evaluations", json!(prev_eval + a.evaluations as u64));
    // distinct non-trivial instances (not multiplied by seeds or builds)
    report.cov("distinct_nontrivial", json!(prev_nt.max(a.nontrivial.len() as u64)));
    add(report, "instances", json!(t.insts.len()));
    add(report, "hash_seeds", json!(t.seeds));
    add(report, "answered", json!(a.ok));
    add(report, "skipped_solve_failed", json!(if spec.failures_are_verdicts { 0 } else { a.solve_failed }));
    add(report, "solve_failures", json!(a.failure_count));
    add(report, "skipped_output_unreadable", json!(a.skipped));
    add(report, "distinct_outcomes", json!(a.digests.len()));
    add(report, "oracle_violations", json!(a.violation_count));
    add(report, "oracle_violations_by_clause", json!(a.clause_counts));
    report.cov("rule", json!(format!("{} Enumerated: {}. Non-trivial: {}", "Every instance of the grammar x every hash seed, each run once through the real code in a watchdog-supervised worker.", t.describe, spec.rule)));
    let was_exhaustive = report.coverage.get("exhaustive").and_then(|x| x.as_bool()).unwrap_or(true);
    report.cov("exhaustive", json!(was_exhaustive && !capped));
    add(report, "tasks_dispatched", json!(dispatched));
    add(report, "tasks_total", json!(ntasks));
    add(report, "hangs", json!(a.hangs));
    if capped {
        add(report, "cap", json!(format!("stopped dispatching after {} tasks exceeded the {} s horizon; tasks are dispatched in enumeration order, {} of {} were started", HANG_CAP, HORIZON.as_secs(), dispatched, ntasks)));
    }
    report.cov("horizon_s", json!(HORIZON.as_secs()));
    if !report.coverage.contains_key("samples") || report.coverage["samples"].as_array().map(|x| x.is_empty()).unwrap_or(true) {
        report.cov("samples", json!(a.samples));
    }
    if a.failure_count > 0 {
        add(report, "solve_failure_kinds", json!(a.failure_kinds));
    }
}

pub fn check(spec: SweepSpec, tier_name: &str) -> i32 {
    let mut report = Report::new(spec.prop, tier_name, spec.level);
    for a in &spec.assumptions {
        report.assume(a);
    }
    report.assume("hash-map iteration order is covered for the enumerated hash seeds only (the seed space is not exhaustible); oracles never depend on it");
    report.assume("valid instances = instances of the grammar (README-conformant); larger instances are outside the explored space");
    run(&spec, tier_name, &mut report);
    report.finish()
}

/// `--replay <file>`: run the recorded task once, print the worker's answer, exit 1 if it still fails
pub fn replay(prop: &str, path: &str) -> i32 {
    let txt = std::fs::read_to_string(path).unwrap_or_else(|e| machinery_error(prop, &format!("cannot read {}: {}", path, e)));
    let mut payload: Value = serde_json::from_str(&txt).unwrap_or_else(|e| machinery_error(prop, &format!("bad replay file: {}", e)));
    payload["want_output"] = json!(true);
    let exe = match payload.get("exe_label").and_then(|x| x.as_str()) {
        Some("deploy") => std::path::PathBuf::from("/verif/target/deploy/rsv"),
        _ => std::env::current_exe().unwrap(),
    };
    let o = run_once(&exe, &payload).unwrap_or_else(|e| machinery_error(prop, &e));
    match &o {
        Outcome::Done(v) => {
            let mut short = v.clone();
            if let Some(m) = short.as_object_mut() {
                m.remove("output");
            }
            crate::say!("{}", serde_json::to_string_pretty(&short).unwrap());
            let failed = v["status"] != "ok" || v["results"][prop]["viol"].as_array().map(|x| !x.is_empty()).unwrap_or(false);
            if failed {
                crate::say!("VIOLATION property={} replay={}", prop, path);
                1
            } else {
                crate::say!("replay passes");
                0
            }
        }
        Outcome::Hang => {
            crate::say!("no answer within the horizon");
            crate::say!("VIOLATION property={} replay={}", prop, path);
            1
        }
        Outcome::Crash(s) => {
            crate::say!("worker died: {}", s);
            crate::say!("VIOLATION property={} replay={}", prop, path);
            1
        }
    }
}

/// Development aid (not a registered check): one pass over the tier's grammar evaluating ALL solve-based
/// oracles at once; prints per property the number of violations and a few examples.
pub fn survey(tier_name: &str) -> i32 {
    let t = tier(tier_name, false);
    let exe = std::env::current_exe().expect("current exe");
    let props = ["C01", "C02", "C03", "C04", "C05", "C06", "C07", "C08", "C15", "C16"];
    let nseeds = t.seeds.len();
    let ntasks = t.insts.len() * nseeds;
    let agg: Mutex<(BTreeMap<String, usize>, Vec<String>, usize, usize)> = Mutex::new((BTreeMap::new(), vec![], 0, 0));
    let make = |i: usize| json!({"kind": "solve", "code": t.insts[i / nseeds].code(), "seed": t.seeds[i % nseeds], "props": props});
    let on_result = |i: usize, o: Outcome| {
        let mut a = agg.lock().unwrap();
        a.2 += 1;
        let inst = &t.insts[i / nseeds];
        match o {
            Outcome::Hang => {
                a.3 += 1;
                *a.0.entry("HANG".into()).or_insert(0) += 1;
                if a.1.len() < 200 {
                    a.1.push(format!("HANG {} seed {}", inst.describe(), t.seeds[i % nseeds]));
                }
            }
            Outcome::Crash(s) => {
                *a.0.entry("CRASH".into()).or_insert(0) += 1;
                if a.1.len() < 200 {
                    a.1.push(format!("CRASH {} {} seed {}", s, inst.describe(), t.seeds[i % nseeds]));
                }
            }
            Outcome::Done(v) => {
                if v["status"] == "panic" {
                    let k = format!("PANIC {}:{}", site_without_line(v["site"].as_str().unwrap_or("")), v["msg"].as_str().unwrap_or("").chars().take(50).collect::<String>());
                    let c = a.0.entry(k.clone()).or_insert(0);
                    *c += 1;
                    if *c <= 3 {
                        a.1.push(format!("{} on {} seed {}", k, inst.describe(), t.seeds[i % nseeds]));
                    }
                } else if v["status"] == "ok" {
                    for p in props {
                        if p == "C08" && !inst.has_maintenance() {
                            continue;
                        }
                        for e in v["results"][p]["viol"].as_array().into_iter().flatten() {
                            let k = format!("{}:{}", p, e[0].as_str().unwrap_or(""));
                            let c = a.0.entry(k.clone()).or_insert(0);
                            *c += 1;
                            if *c <= 3 {
                                a.1.push(format!("{} {} -- {} seed {}", k, e[1].as_str().unwrap_or(""), inst.describe(), t.seeds[i % nseeds]));
                            }
                        }
                    }
                } else {
                    *a.0.entry(format!("MACHINERY {}", v)).or_insert(0) += 1;
                }
            }
        }
        if a.2 % 200000 == 0 {
            crate::say!("  ... {} of {} tasks, kinds so far: {:?}", a.2, ntasks, a.0);
        }
    };
    let stop = || agg.lock().unwrap().3 >= HANG_CAP;
    match pool::run_tasks_stoppable(&exe, ntasks, nworkers(), HORIZON, &make, &on_result, &stop) {
        Ok(d) => crate::say!("survey {}: dispatched {} of {} tasks", tier_name, d, ntasks),
        Err(e) => crate::say!("survey machinery error: {}", e.0),
    }
    let a = agg.into_inner().unwrap();
    crate::say!("violation kinds: {:?}", a.0);
    for l in &a.1 {
        crate::say!("  {}", l);
    }
    if a.0.is_empty() { 0 } else { 1 }
}
