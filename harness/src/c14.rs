//! C14: the min-cost-flow start solution vs an independently computed optimum.
//!
//! The optimum is computed from the input alone (spec): a circulation network over the type's
//! segments and allotted slots with lexicographic cost (vehicles, operating cost), solved exactly by
//! negative-cycle cancelling (Bellman-Ford over the ordered group Z x Z) starting from the trivial
//! feasible circulation (every unit its own tour from the unlimited overflow depot).
use crate::arena::Arena;
use crate::spec::{Kind, Spec};
use model::base_types::VehicleIdx;
use solution::Schedule;
use std::collections::BTreeMap;

type Cost = (i64, i64);

fn add(a: Cost, b: Cost) -> Cost {
    (a.0 + b.0, a.1 + b.1)
}
fn neg(a: Cost) -> Cost {
    (-a.0, -a.1)
}

struct Edge {
    from: usize,
    to: usize,
    lo: i64,
    hi: i64,
    cost: Cost,
    flow: i64,
}

pub struct Optimum {
    pub vehicles: i64,
    pub cost: i64,
    pub cycles_cancelled: usize,
}

const BIG: i64 = 1_000;

/// optimum for spec type `t` given the slot allotment (activity index -> count)
pub fn optimum(spec: &Spec, t: usize, allot: &BTreeMap<usize, i64>) -> Optimum {
    // activity nodes of this type
    let mut acts: Vec<usize> = (0..spec.n_segs).filter(|&i| spec.acts[i].vt() == Some(t)).collect();
    acts.extend(allot.iter().filter(|(_, c)| **c > 0).map(|(i, _)| *i));
    let planning = spec.planning_seconds();
    // depots: the instance's depots plus the overflow depot (None location)
    let mut depots: Vec<(Option<usize>, i64)> = vec![];
    for d in &spec.depots {
        depots.push((Some(d.loc), d.capacity_for(t).unwrap_or(BIG)));
    }
    depots.push((None, BIG));
    let na = acts.len();
    let nd = depots.len();
    // node numbering: act i: in = 2i, out = 2i+1; depot d: in = 2na + 2d, out = 2na + 2d + 1
    let n_nodes = 2 * na + 2 * nd;
    let ain = |i: usize| 2 * i;
    let aout = |i: usize| 2 * i + 1;
    let din = |d: usize| 2 * na + 2 * d;
    let dout = |d: usize| 2 * na + 2 * d + 1;
    let mut edges: Vec<Edge> = vec![];
    let mut node_edge = vec![0usize; na];
    for (k, &ai) in acts.iter().enumerate() {
        let a = &spec.acts[ai];
        let (lo, hi, c) = match a.kind {
            Kind::Seg { .. } => (spec.cover_lb(ai), spec.limit(ai).unwrap_or(BIG), spec.cost_service),
            Kind::Slot { .. } => (allot[&ai], allot[&ai], spec.cost_maint),
        };
        node_edge[k] = edges.len();
        edges.push(Edge { from: ain(k), to: aout(k), lo, hi, cost: (0, (a.end - a.start) * c), flow: 0 });
    }
    let leg = |from: Option<usize>, to: Option<usize>| -> i64 {
        match (from, to) {
            (Some(x), Some(y)) => spec.dh_time[x][y] * spec.cost_dh,
            _ => planning * spec.cost_dh, // convention of the implementation for the overflow depot, mirrored
        }
    };
    let mut depot_edge = vec![0usize; nd];
    let mut start_edge = vec![vec![0usize; na]; nd];
    let mut end_edge = vec![vec![0usize; nd]; na];
    for d in 0..nd {
        depot_edge[d] = edges.len();
        edges.push(Edge { from: din(d), to: dout(d), lo: 0, hi: depots[d].1, cost: (1, 0), flow: 0 });
        for (k, &ai) in acts.iter().enumerate() {
            start_edge[d][k] = edges.len();
            edges.push(Edge { from: dout(d), to: ain(k), lo: 0, hi: BIG, cost: (0, leg(depots[d].0, Some(spec.acts[ai].origin))), flow: 0 });
            end_edge[k][d] = edges.len();
            edges.push(Edge { from: aout(k), to: din(d), lo: 0, hi: BIG, cost: (0, leg(Some(spec.acts[ai].dest), depots[d].0)), flow: 0 });
        }
    }
    for (k, &ai) in acts.iter().enumerate() {
        for (l, &bi) in acts.iter().enumerate() {
            if k != l && spec.reach(ai, bi) {
                let (a, b) = (&spec.acts[ai], &spec.acts[bi]);
                let tt = spec.dh_time[a.dest][b.origin];
                let idle = (b.start - a.end - tt).max(0);
                edges.push(Edge { from: aout(k), to: ain(l), lo: 0, hi: BIG, cost: (0, tt * spec.cost_dh + idle * spec.cost_idle), flow: 0 });
            }
        }
    }
    // trivial feasible circulation: each required unit runs its own tour from and to the overflow depot
    let ov = nd - 1;
    for k in 0..na {
        let lo = edges[node_edge[k]].lo;
        edges[node_edge[k]].flow = lo;
        edges[start_edge[ov][k]].flow = lo;
        edges[end_edge[k][ov]].flow = lo;
        edges[depot_edge[ov]].flow += lo;
    }
    // negative cycle cancelling
    let mut cancelled = 0;
    loop {
        // residual arcs: (from, to, cost, edge index, forward?)
        let mut arcs: Vec<(usize, usize, Cost, usize, bool)> = vec![];
        for (i, e) in edges.iter().enumerate() {
            if e.flow < e.hi {
                arcs.push((e.from, e.to, e.cost, i, true));
            }
            if e.flow > e.lo {
                arcs.push((e.to, e.from, neg(e.cost), i, false));
            }
        }
        let mut dist: Vec<Cost> = vec![(0, 0); n_nodes];
        let mut pred: Vec<Option<usize>> = vec![None; n_nodes];
        let mut last = None;
        for _ in 0..n_nodes {
            last = None;
            for (ai, a) in arcs.iter().enumerate() {
                let nd_ = add(dist[a.0], a.2);
                if nd_ < dist[a.1] {
                    dist[a.1] = nd_;
                    pred[a.1] = Some(ai);
                    last = Some(a.1);
                }
            }
            if last.is_none() {
                break;
            }
        }
        let Some(mut x) = last else { break };
        for _ in 0..n_nodes {
            x = arcs[pred[x].unwrap()].0;
        }
        // collect the cycle through x
        let mut cyc = vec![];
        let mut y = x;
        loop {
            let ai = pred[y].unwrap();
            cyc.push(ai);
            y = arcs[ai].0;
            if y == x {
                break;
            }
        }
        let mut delta = i64::MAX;
        for &ai in &cyc {
            let (_, _, _, ei, fwd) = arcs[ai];
            let e = &edges[ei];
            delta = delta.min(if fwd { e.hi - e.flow } else { e.flow - e.lo });
        }
        for &ai in &cyc {
            let (_, _, _, ei, fwd) = arcs[ai];
            if fwd {
                edges[ei].flow += delta;
            } else {
                edges[ei].flow -= delta;
            }
        }
        cancelled += 1;
        if cancelled > 10_000 {
            break;
        }
    }
    let mut total: Cost = (0, 0);
    for e in &edges {
        total = add(total, (e.cost.0 * e.flow, e.cost.1 * e.flow));
    }
    Optimum { vehicles: total.0, cost: total.1, cycles_cancelled: cancelled }
}

/// instances in the property's scope: depot totals do not couple the types
pub fn in_scope(spec: &Spec) -> bool {
    if spec.types.len() <= 1 || !spec.depots_given {
        return true;
    }
    spec.depots.iter().all(|d| {
        let sum: i64 = (0..spec.types.len()).map(|t| d.capacity_for(t).unwrap_or(0)).sum();
        d.total.map(|tot| tot >= sum).unwrap_or(true)
    })
}

pub fn check(a: &Arena, start: &Schedule) -> (Vec<(String, String)>, bool) {
    let mut viol = vec![];
    let spec = &a.spec;
    let mut nontrivial = false;
    for (&vt, &t) in &a.type_of {
        let fleet: Vec<VehicleIdx> = start.vehicles_iter(vt).collect();
        // observed allotment of maintenance tracks
        let mut allot: BTreeMap<usize, i64> = BTreeMap::new();
        for i in spec.n_segs..spec.acts.len() {
            let n = a.nm.act_node[i].unwrap();
            let c = start.train_formation_of(n).ids().iter().filter(|v| fleet.contains(v)).count() as i64;
            allot.insert(i, c);
        }
        let opt = optimum(spec, t, &allot);
        let vehicles = fleet.len() as i64;
        let cost: i64 = fleet.iter().map(|v| start.tour_of(*v).unwrap().costs() as i64).sum();
        let tname = &spec.types[t].id;
        // the cost of a leg touching the overflow depot is a convention of the implementation: when the
        // start solution uses that depot only the vehicle count is compared
        let (ov_s, ov_e) = (a.nw.overflow_depot_idxs().1, a.nw.overflow_depot_idxs().2);
        let uses_overflow = fleet.iter().any(|v| {
            let t = start.tour_of(*v).unwrap();
            t.first_node() == ov_s || t.last_node() == ov_e
        });
        if vehicles != opt.vehicles {
            viol.push(("vehicle-count-not-minimal".to_string(), format!("type {}: start solution uses {} vehicles, the minimum is {}", tname, vehicles, opt.vehicles)));
        } else if cost != opt.cost && !uses_overflow {
            viol.push(("cost-not-minimal".to_string(), format!("type {}: start solution with {} vehicles costs {}, the minimum is {}", tname, vehicles, cost, opt.cost)));
        }
        // every unit decoded into one tour: coverage within bounds
        for i in (0..spec.n_segs).filter(|&i| spec.acts[i].vt() == Some(t)) {
            let n = a.nm.act_node[i].unwrap();
            let k = start.train_formation_of(n).ids().len() as i64;
            if k < spec.cover_lb(i) || spec.limit(i).map(|l| k > l).unwrap_or(false) {
                viol.push(("coverage-out-of-bounds".to_string(), format!("{} is covered by {} vehicles, bounds [{}, {:?}]", spec.acts[i].id, k, spec.cover_lb(i), spec.limit(i))));
            }
        }
        for v in &fleet {
            let ns: Vec<_> = start.tour_of(*v).unwrap().all_nodes_iter().collect();
            for w in ns.windows(2) {
                if !a.reach(w[0], w[1]) {
                    viol.push(("tour-unconnectable".to_string(), format!("{}: {} cannot reach {}", v, a.nw.node(w[0]).id(), a.nw.node(w[1]).id())));
                }
            }
        }
        // non-trivial: some connection is used (a tour with two activities) or several vehicles share a segment
        if fleet.iter().any(|v| start.tour_of(*v).unwrap().all_non_depot_nodes_iter().count() >= 2) || vehicles >= 2 {
            nontrivial = true;
        }
    }
    (viol, nontrivial)
}
