//! Oracles over the hook snapshots of one solve call (C08, C16, stage part of C07).
use crate::canon::*;
use serde_json::{json, Value};
use solution::Schedule;
use std::collections::BTreeSet;

type Step = (Option<Schedule>, Schedule);

fn find<'a>(stages: &'a [(&'static str, Schedule)], name: &str) -> Option<&'a Schedule> {
    stages.iter().find(|(n, _)| *n == name).map(|(_, s)| s)
}

pub fn evaluate(steps: &[Step], stages: &[(&'static str, Schedule)], out: &Value) -> Value {
    json!({
        "C08": c08(steps, stages),
        "C16": c16(stages, out),
        "C07": c07_stages(steps, stages),
        "C15": c15(stages),
    })
}

fn c08(steps: &[Step], stages: &[(&'static str, Schedule)]) -> Value {
    let mut viol: Vec<Value> = vec![];
    let (start, ls) = match (find(stages, "start"), find(stages, "local_search")) {
        (Some(a), Some(b)) => (a, b),
        _ => return json!({"nt": false, "viol": [["machinery", "stage snapshots missing"]]}),
    };
    let nw = start.get_network();
    if !nw.maintenance_considered() {
        // the pipeline runs no local search; nothing to check
        if !steps.is_empty() {
            viol.push(json!(["unexpected-steps", "local search steps recorded although maintenance is not considered"]));
        }
        return json!({"nt": false, "viol": viol});
    }
    // every accepted step strictly improves in the documented order
    let mut prev_key = schedule_key(start);
    for (i, (p, c)) in steps.iter().enumerate() {
        match p {
            Some(p) => {
                if schedule_key(p) != prev_key {
                    viol.push(json!(["chain-broken", format!("step {} starts from a schedule that is not the previous step's result", i + 1)]));
                }
                let (op, oc) = (objective(p), objective(c));
                if !(oc < op) {
                    viol.push(json!(["step-not-improving", format!("step {}: (unserved, violation, vehicles, costs) went from {:?} to {:?}", i + 1, op, oc)]));
                }
            }
            None => viol.push(json!(["chain-broken", format!("step {} has no predecessor", i + 1)])),
        }
        prev_key = schedule_key(c);
    }
    if schedule_key(ls) != prev_key {
        viol.push(json!(["chain-broken", "the local-search result is not the last accepted step"]));
    }
    if objective(ls) > objective(start) {
        viol.push(json!(["worse-than-start", format!("result {:?} is worse than the start solution {:?}", objective(ls), objective(start))]));
    }
    // fixpoint: running the real solver factory again on the result changes nothing
    let _ = solver::verif_hooks::take_steps();
    let solver_again = solver::local_search::build_local_search_solver(nw.clone());
    use rapid_solve::heuristics::Solver;
    let again = solver_again.solve(solver::local_search::ScheduleWithInfo::new(
        ls.clone(),
        solver::local_search::neighborhood::swaps::SwapInfo::NoSwap,
        "fixpoint probe".to_string(),
    ));
    let extra = solver::verif_hooks::take_steps();
    if !extra.is_empty() {
        let (p, c) = (&extra[0].0, &extra[0].1);
        viol.push(json!(["not-a-fixpoint", format!("searching again from the result accepts {} more step(s); first goes from {:?} to {:?}", extra.len(), p.as_ref().map(objective), objective(c))]));
    }
    if schedule_key(again.solution().get_schedule()) != schedule_key(ls) {
        viol.push(json!(["not-a-fixpoint", "searching again from the result returns a different schedule"]));
    }
    json!({"nt": !steps.is_empty(), "viol": viol, "steps": steps.len()})
}

fn cycles_of(s: &Schedule) -> BTreeSet<(String, Vec<String>)> {
    let mut out = BTreeSet::new();
    let nw = s.get_network();
    for vt in types(s) {
        let tname = nw.vehicle_types().get(vt).unwrap().id().clone();
        for c in s.next_day_transition_of(vt).cycles_iter() {
            if !c.is_empty() {
                out.insert((tname.clone(), c.iter().map(|v| v.to_string()).collect()));
            }
        }
    }
    out
}

fn c16(stages: &[(&'static str, Schedule)], out: &Value) -> Value {
    let mut viol: Vec<Value> = vec![];
    let names: Vec<&str> = stages.iter().map(|(n, _)| *n).collect();
    if names != ["start", "local_search", "optimized_transitions", "final"] {
        return json!({"nt": false, "viol": [["machinery", format!("unexpected stage list {:?}", names)]]});
    }
    let (start, ls, opt, fin) = (&stages[0].1, &stages[1].1, &stages[2].1, &stages[3].1);
    let nw = start.get_network();
    if !nw.maintenance_considered() && tours_key(start) != tours_key(ls) {
        viol.push(json!(["stage-replaced", "without maintenance the start solution must be passed on unchanged"]));
    }
    // the optimiser works on the local-search result
    if tours_key(opt) != tours_key(ls) {
        viol.push(json!(["stage-replaced", "the transition optimisation was not applied to the local-search result"]));
    }
    // reported cycles = the optimiser's cycles
    let mut json_cycles = BTreeSet::new();
    for fl in out.pointer("/schedule/fleet").and_then(|f| f.as_array()).into_iter().flatten() {
        let t = fl["vehicleType"].as_str().unwrap_or("?").to_string();
        for c in fl["vehicleCycles"].as_array().into_iter().flatten() {
            let c: Vec<String> = c.as_array().into_iter().flatten().map(|x| x.as_str().unwrap_or("?").to_string()).collect();
            if !c.is_empty() {
                json_cycles.insert((t.clone(), c));
            }
        }
    }
    let opt_cycles = cycles_of(opt);
    if json_cycles != opt_cycles {
        viol.push(json!(["optimised-cycles-discarded", format!("reported cycles {:?} are not the optimiser's cycles {:?}", json_cycles, opt_cycles)]));
    }
    // activities per vehicle = local-search result's; final differs only in end depots
    let vs_ls: Vec<_> = types(ls).into_iter().flat_map(|vt| ls.vehicles_iter(vt).collect::<Vec<_>>()).collect();
    let vs_fin: Vec<_> = types(fin).into_iter().flat_map(|vt| fin.vehicles_iter(vt).collect::<Vec<_>>()).collect();
    if vs_ls != vs_fin {
        viol.push(json!(["vehicles-changed", "the final schedule has other vehicles than the local-search result"]));
    } else {
        for v in vs_ls {
            let a = tour_nodes(ls, v);
            let b = tour_nodes(fin, v);
            if a.len() != b.len() || a[..a.len() - 1] != b[..b.len() - 1] {
                viol.push(json!(["activities-changed", format!("{}: final tour {:?} differs from the local-search tour {:?} in more than the end depot", v, b, a)]));
            }
        }
    }
    // end depots aligned to the (optimiser's) cycles: every vehicle ends in the depot where its cyclic successor starts
    for vt in types(fin) {
        for c in fin.next_day_transition_of(vt).cycles_iter() {
            let vs: Vec<_> = c.iter().collect();
            for (i, v) in vs.iter().enumerate() {
                let nxt = vs[(i + 1) % vs.len()];
                if let (Ok(t), Ok(n)) = (fin.tour_of(*v), fin.tour_of(nxt)) {
                    let (e, s0) = (nw.get_depot_idx(t.last_node()), nw.get_depot_idx(n.first_node()));
                    if e != s0 {
                        viol.push(json!(["end-depots-not-aligned", format!("{} ends in depot {} but its successor {} in the reported cycle starts in depot {}", v, nw.get_depot(e).id(), nxt, nw.get_depot(s0).id())]));
                    }
                }
            }
        }
    }
    // the answer is the serialisation of the final snapshot
    let expect = solution::json_serialisation::schedule_to_json(fin);
    if out.get("schedule") != Some(&expect) {
        viol.push(json!(["answer-not-final", "the returned schedule is not the serialisation of the final stage"]));
    }
    let nt = cycles_of(opt) != cycles_of(ls);
    json!({"nt": nt, "viol": viol})
}

fn c07_stages(steps: &[Step], stages: &[(&'static str, Schedule)]) -> Value {
    let mut viol: Vec<Value> = vec![];
    let mut seq: Vec<(String, i64)> = vec![];
    if let Some(s) = find(stages, "start") {
        seq.push(("start".into(), objective(s).0));
    }
    for (i, (_, c)) in steps.iter().enumerate() {
        seq.push((format!("step {}", i + 1), objective(c).0));
    }
    for n in ["local_search", "optimized_transitions", "final"] {
        if let Some(s) = find(stages, n) {
            seq.push((n.into(), objective(s).0));
        }
    }
    for w in seq.windows(2) {
        if w[1].1 > w[0].1 {
            viol.push(json!(["stage-gives-up-demand", format!("unserved passengers rise from {} ({}) to {} ({})", w[0].1, w[0].0, w[1].1, w[1].0)]));
        }
    }
    json!({"viol": viol})
}

/// C15, optimiser part: the transition optimisation returns cycles over the same vehicles, internally
/// exact, whose (violation, counter) is not worse than its input.
fn c15(stages: &[(&'static str, Schedule)]) -> Value {
    let mut viol: Vec<Value> = vec![];
    let (ls, opt) = match (find(stages, "local_search"), find(stages, "optimized_transitions")) {
        (Some(a), Some(b)) => (a, b),
        _ => return json!({"nt": false, "viol": [["machinery", "stage snapshots missing"]]}),
    };
    let nw = ls.get_network();
    let mut changed = false;
    for vt in types(ls) {
        let tin = ls.next_day_transition_of(vt);
        let tout = opt.next_day_transition_of(vt);
        let vin: BTreeSet<String> = tin.cycles_iter().flat_map(|c| c.iter().map(|v| v.to_string()).collect::<Vec<_>>()).collect();
        let mut seen = BTreeSet::new();
        let mut dup = false;
        for c in tout.cycles_iter() {
            for v in c.iter() {
                if !seen.insert(v.to_string()) {
                    dup = true;
                }
            }
        }
        if dup || seen != vin {
            viol.push(json!(["optimiser-vehicle-set", format!("type {}: optimiser was given {:?} and returned {:?} (duplicates: {})", vt, vin, seen, dup)]));
            continue;
        }
        // internal exactness: counters recomputed from the tours' own counters and the depot transfers
        let (mut tv, mut tc) = (0i64, 0i64);
        for c in tout.cycles_iter() {
            let vs: Vec<_> = c.iter().collect();
            let mut cnt = 0i64;
            for (i, v) in vs.iter().enumerate() {
                let t = ls.tour_of(*v).unwrap();
                let n = ls.tour_of(vs[(i + 1) % vs.len()]).unwrap();
                cnt += t.maintenance_counter()
                    + nw.dead_head_distance_between(t.end_depot().unwrap(), n.start_depot().unwrap()).in_meter().unwrap_or(model::base_types::INF_DISTANCE) as i64;
            }
            if c.maintenance_counter() != cnt {
                viol.push(json!(["optimiser-cycle-counter", format!("type {} cycle {:?}: counter {}, recomputed {}", vt, vs, c.maintenance_counter(), cnt)]));
            }
            tv += cnt.max(0);
            tc += cnt;
        }
        if tout.maintenance_violation() != tv || tout.maintenance_counter() != tc {
            viol.push(json!(["optimiser-totals", format!("type {}: totals ({}, {}), recomputed ({}, {})", vt, tout.maintenance_violation(), tout.maintenance_counter(), tv, tc)]));
        }
        for v in tout.cycles_iter().flat_map(|c| c.iter().collect::<Vec<_>>()) {
            let ok = std::panic::catch_unwind(std::panic::AssertUnwindSafe(|| tout.get_successor_of(v))).is_ok();
            if !ok {
                let _ = crate::pool::take_last_panic();
                viol.push(json!(["optimiser-lookup", format!("type {}: get_successor_of({}) panics on the optimised transition", vt, v)]));
            }
        }
        let (oi, oo) = ((tin.maintenance_violation(), tin.maintenance_counter()), (tout.maintenance_violation(), tout.maintenance_counter()));
        if oo > oi {
            viol.push(json!(["optimiser-worsens", format!("type {}: (violation, counter) went from {:?} to {:?}", vt, oi, oo)]));
        }
        let a: Vec<Vec<String>> = tin.cycles_iter().map(|c| c.iter().map(|v| v.to_string()).collect()).collect();
        let b: Vec<Vec<String>> = tout.cycles_iter().map(|c| c.iter().map(|v| v.to_string()).collect()).collect();
        if a != b {
            changed = true;
        }
    }
    json!({"nt": changed, "viol": viol})
}
