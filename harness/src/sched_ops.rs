//! The public modification alphabet of `Schedule` as data: enumeration of all valid arguments per
//! state, application with panic capture, (de)serialisation for replay files.
#![allow(dead_code)]
use crate::arena::Arena;
use im::HashMap as ImHashMap;
use model::base_types::{NodeIdx, VehicleIdx, VehicleTypeIdx};
use serde_json::{json, Value};
use solution::path::Path;
use solution::segment::Segment;
use solution::transition::Transition;
use solution::Schedule;

#[derive(Clone, Debug, PartialEq, Eq)]
pub enum Op {
    Spawn { vt: VehicleTypeIdx, nodes: Vec<NodeIdx> },
    ReplaceDummy { d: VehicleIdx, vt: VehicleTypeIdx },
    Delete { v: VehicleIdx },
    AddPath { v: VehicleIdx, nodes: Vec<NodeIdx> },
    Remove { v: VehicleIdx, a: NodeIdx, b: NodeIdx },
    Fit { p: VehicleIdx, r: VehicleIdx, a: NodeIdx, b: NodeIdx },
    Override { p: VehicleIdx, r: VehicleIdx, a: NodeIdx, b: NodeIdx },
    ImproveDepots { vs: Option<Vec<VehicleIdx>> },
    EndGreedy,
    EndConsistent,
    Recompute { vts: Option<Vec<VehicleTypeIdx>> },
    /// replace the transition of `vt` by `Transition::new_fast` of the current fleet
    SetNewFast { vt: VehicleTypeIdx },
    /// replace the transition of `vt` by the current one with `v` moved to cycle `cycle`
    SetMove { vt: VehicleTypeIdx, v: VehicleIdx, cycle: usize },
}

#[derive(Clone, Debug)]
pub enum Ret {
    None,
    Vehicle(VehicleIdx),
    PathOpt(Option<Vec<NodeIdx>>),
    DummyOpt(Option<VehicleIdx>),
}

pub enum StepResult {
    Ok(Schedule, Ret),
    Err(String),
    Panic(String, String),
}

impl Op {
    pub fn kind(&self) -> &'static str {
        match self {
            Op::Spawn { .. } => "spawn_vehicle_for_path",
            Op::ReplaceDummy { .. } => "spawn_vehicle_to_replace_dummy_tour",
            Op::Delete { .. } => "replace_vehicle_by_dummy",
            Op::AddPath { .. } => "add_path_to_vehicle_tour",
            Op::Remove { .. } => "remove_segment",
            Op::Fit { .. } => "fit_reassign",
            Op::Override { .. } => "override_reassign",
            Op::ImproveDepots { .. } => "improve_depots",
            Op::EndGreedy => "reassign_end_depots_greedily",
            Op::EndConsistent => "reassign_end_depots_consistent_with_transitions",
            Op::Recompute { .. } => "recompute_transitions_for",
            Op::SetNewFast { .. } | Op::SetMove { .. } => "set_next_day_transitions",
        }
    }

    pub fn to_json(&self, a: &Arena) -> Value {
        let n = |x: &NodeIdx| a.nw.node(*x).id().to_string();
        let ns = |v: &Vec<NodeIdx>| v.iter().map(n).collect::<Vec<_>>();
        let t = |vt: &VehicleTypeIdx| a.nw.vehicle_types().get(*vt).unwrap().id().clone();
        match self {
            Op::Spawn { vt, nodes } => json!({"op": "spawn_vehicle_for_path", "type": t(vt), "nodes": ns(nodes)}),
            Op::ReplaceDummy { d, vt } => json!({"op": "spawn_vehicle_to_replace_dummy_tour", "dummy": d.to_string(), "type": t(vt)}),
            Op::Delete { v } => json!({"op": "replace_vehicle_by_dummy", "vehicle": v.to_string()}),
            Op::AddPath { v, nodes } => json!({"op": "add_path_to_vehicle_tour", "vehicle": v.to_string(), "nodes": ns(nodes)}),
            Op::Remove { v, a: x, b } => json!({"op": "remove_segment", "vehicle": v.to_string(), "from": n(x), "to": n(b)}),
            Op::Fit { p, r, a: x, b } => json!({"op": "fit_reassign", "provider": p.to_string(), "receiver": r.to_string(), "from": n(x), "to": n(b)}),
            Op::Override { p, r, a: x, b } => json!({"op": "override_reassign", "provider": p.to_string(), "receiver": r.to_string(), "from": n(x), "to": n(b)}),
            Op::ImproveDepots { vs } => json!({"op": "improve_depots", "vehicles": vs.as_ref().map(|v| v.iter().map(|x| x.to_string()).collect::<Vec<_>>())}),
            Op::EndGreedy => json!({"op": "reassign_end_depots_greedily"}),
            Op::EndConsistent => json!({"op": "reassign_end_depots_consistent_with_transitions"}),
            Op::Recompute { vts } => json!({"op": "recompute_transitions_for", "types": vts.as_ref().map(|v| v.iter().map(t).collect::<Vec<_>>())}),
            Op::SetNewFast { vt } => json!({"op": "set_next_day_transitions", "type": t(vt), "with": "new_fast"}),
            Op::SetMove { vt, v, cycle } => json!({"op": "set_next_day_transitions", "type": t(vt), "with": "move_vehicle", "vehicle": v.to_string(), "to_cycle": cycle}),
        }
    }

    pub fn from_json(a: &Arena, j: &Value) -> Result<Op, String> {
        let node = |k: &str| -> Result<NodeIdx, String> {
            let id = j.get(k).and_then(|x| x.as_str()).ok_or(format!("missing {}", k))?;
            a.nw.all_nodes().find(|n| a.nw.node(*n).id() == id).ok_or(format!("unknown node {}", id))
        };
        let nodes = |k: &str| -> Result<Vec<NodeIdx>, String> {
            j.get(k)
                .and_then(|x| x.as_array())
                .ok_or(format!("missing {}", k))?
                .iter()
                .map(|x| {
                    let id = x.as_str().unwrap_or("");
                    a.nw.all_nodes().find(|n| a.nw.node(*n).id() == id).ok_or(format!("unknown node {}", id))
                })
                .collect()
        };
        let veh = |k: &str| -> Result<VehicleIdx, String> { j.get(k).and_then(|x| x.as_str()).and_then(crate::arena::parse_vehicle).ok_or(format!("missing vehicle {}", k)) };
        let ty_of = |id: &str| -> Result<VehicleTypeIdx, String> { a.types.iter().copied().find(|t| a.nw.vehicle_types().get(*t).unwrap().id() == id).ok_or(format!("unknown type {}", id)) };
        let ty = |k: &str| -> Result<VehicleTypeIdx, String> { ty_of(j.get(k).and_then(|x| x.as_str()).ok_or(format!("missing {}", k))?) };
        Ok(match j.get("op").and_then(|x| x.as_str()).unwrap_or("") {
            "spawn_vehicle_for_path" => Op::Spawn { vt: ty("type")?, nodes: nodes("nodes")? },
            "spawn_vehicle_to_replace_dummy_tour" => Op::ReplaceDummy { d: veh("dummy")?, vt: ty("type")? },
            "replace_vehicle_by_dummy" => Op::Delete { v: veh("vehicle")? },
            "add_path_to_vehicle_tour" => Op::AddPath { v: veh("vehicle")?, nodes: nodes("nodes")? },
            "remove_segment" => Op::Remove { v: veh("vehicle")?, a: node("from")?, b: node("to")? },
            "fit_reassign" => Op::Fit { p: veh("provider")?, r: veh("receiver")?, a: node("from")?, b: node("to")? },
            "override_reassign" => Op::Override { p: veh("provider")?, r: veh("receiver")?, a: node("from")?, b: node("to")? },
            "improve_depots" => Op::ImproveDepots {
                vs: match j.get("vehicles") {
                    Some(Value::Array(v)) => Some(v.iter().map(|x| crate::arena::parse_vehicle(x.as_str().unwrap_or("")).ok_or("bad vehicle".to_string())).collect::<Result<_, _>>()?),
                    _ => None,
                },
            },
            "reassign_end_depots_greedily" => Op::EndGreedy,
            "reassign_end_depots_consistent_with_transitions" => Op::EndConsistent,
            "recompute_transitions_for" => Op::Recompute {
                vts: match j.get("types") {
                    Some(Value::Array(v)) => Some(v.iter().map(|x| ty_of(x.as_str().unwrap_or(""))).collect::<Result<_, _>>()?),
                    _ => None,
                },
            },
            "set_next_day_transitions" => match j.get("with").and_then(|x| x.as_str()) {
                Some("new_fast") => Op::SetNewFast { vt: ty("type")? },
                _ => Op::SetMove { vt: ty("type")?, v: veh("vehicle")?, cycle: j.get("to_cycle").and_then(|x| x.as_u64()).unwrap_or(0) as usize },
            },
            other => return Err(format!("unknown op {}", other)),
        })
    }
}

pub fn real_vehicles(s: &Schedule) -> Vec<VehicleIdx> {
    s.vehicles_iter_all().collect()
}

pub fn dummies(s: &Schedule) -> Vec<VehicleIdx> {
    s.dummy_iter().collect()
}

pub fn nodes_of(s: &Schedule, v: VehicleIdx) -> Vec<NodeIdx> {
    s.tour_of(v).map(|t| t.all_nodes_iter().collect()).unwrap_or_default()
}

pub struct Menu {
    /// longest chain of activities used for spawn / add-path arguments
    pub chain_len: usize,
    /// also enumerate `depot + chain + depot` for chains of one activity
    pub both_depots: bool,
    /// enumerate `depot + chain` and `chain + depot` shapes (otherwise plain chains only)
    pub depot_shapes: bool,
    pub max_real: usize,
    pub max_dummies: usize,
    /// include set_next_day_transitions variants
    pub transitions: bool,
}

/// All valid arguments of every public modification in state `s`, in a fixed order (simplest first).
pub fn enumerate(a: &Arena, s: &Schedule, m: &Menu) -> Vec<Op> {
    let mut ops = vec![];
    let reals = real_vehicles(s);
    let dums = dummies(s);
    // depot-only and transition-only operations first (simplest)
    if !reals.is_empty() {
        ops.push(Op::ImproveDepots { vs: None });
        // every non-empty subset as a duplicate-free list (bounded by max_real <= 3..4)
        let n = reals.len().min(4);
        for mask in 1u32..(1 << n) {
            let vs: Vec<VehicleIdx> = (0..n).filter(|i| mask & (1 << i) != 0).map(|i| reals[i]).collect();
            ops.push(Op::ImproveDepots { vs: Some(vs) });
        }
        ops.push(Op::EndGreedy);
        ops.push(Op::EndConsistent);
    }
    ops.push(Op::Recompute { vts: None });
    let nt = a.types.len();
    for mask in 0u32..(1 << nt) {
        let vts: Vec<VehicleTypeIdx> = (0..nt).filter(|i| mask & (1 << i) != 0).map(|i| a.types[i]).collect();
        ops.push(Op::Recompute { vts: Some(vts) });
    }
    if m.transitions {
        for &vt in &a.types {
            ops.push(Op::SetNewFast { vt });
            let tr = s.next_day_transition_of(vt);
            let ncycles = tr.number_of_cycles();
            for v in s.vehicles_iter(vt) {
                for c in 0..ncycles {
                    if !tr.get_cycle(c).iter().any(|x| x == v) {
                        ops.push(Op::SetMove { vt, v, cycle: c });
                    }
                }
            }
        }
    }
    for &v in &reals {
        ops.push(Op::Delete { v });
    }
    // segments: every contiguous slice of a tour (depot-inclusive ones too)
    for &v in &reals {
        let ns = nodes_of(s, v);
        for i in 0..ns.len() {
            for j in i..ns.len() {
                if ns[i..=j].iter().any(|n| !a.is_depot(*n)) {
                    ops.push(Op::Remove { v, a: ns[i], b: ns[j] });
                }
            }
        }
    }
    let all: Vec<VehicleIdx> = reals.iter().chain(dums.iter()).copied().collect();
    for &p in &all {
        let ns = nodes_of(s, p);
        for &r in &all {
            if p == r {
                continue;
            }
            for i in 0..ns.len() {
                for j in i..ns.len() {
                    // a segment must contain an activity (a Path has at least one non-depot node)
                    if ns[i..=j].iter().any(|n| !a.is_depot(*n)) {
                        ops.push(Op::Fit { p, r, a: ns[i], b: ns[j] });
                        ops.push(Op::Override { p, r, a: ns[i], b: ns[j] });
                    }
                }
            }
        }
    }
    for &d in &dums {
        for &vt in &a.types {
            ops.push(Op::ReplaceDummy { d, vt });
        }
    }
    // paths: chains with and without depots
    let shapes = |chain: &Vec<NodeIdx>| -> Vec<Vec<NodeIdx>> {
        let mut out = vec![chain.clone()];
        if !m.depot_shapes {
            return out;
        }
        for &sd in &a.start_depots {
            let mut p = vec![sd];
            p.extend(chain.iter().copied());
            out.push(p);
        }
        for &ed in &a.end_depots {
            let mut p = chain.clone();
            p.push(ed);
            out.push(p);
        }
        if m.both_depots && chain.len() == 1 {
            for &sd in &a.start_depots {
                for &ed in &a.end_depots {
                    out.push(vec![sd, chain[0], ed]);
                }
            }
        }
        out
    };
    for &vt in &a.types {
        let chains = a.chains(Some(vt), m.chain_len);
        for &v in reals.iter().filter(|v| s.vehicle_type_of(**v).ok() == Some(vt)) {
            for c in &chains {
                for p in shapes(c) {
                    ops.push(Op::AddPath { v, nodes: p });
                }
            }
        }
        if reals.len() < m.max_real {
            for c in &chains {
                for p in shapes(c) {
                    ops.push(Op::Spawn { vt, nodes: p });
                }
            }
            // one argument outside the domain per state and type: an activity of another type (must be refused)
            if let Some(&foreign) = a.acts.iter().find(|n| !a.compatible(**n, vt)) {
                ops.push(Op::Spawn { vt, nodes: vec![foreign] });
                if let Some(&v) = reals.iter().find(|v| s.vehicle_type_of(**v).ok() == Some(vt)) {
                    ops.push(Op::AddPath { v, nodes: vec![foreign] });
                }
            }
        }
    }
    // the doc comment of add_path_to_vehicle_tour admits dummy receivers: one plain single-activity path per dummy
    for &d in &dums {
        if let Some(&n) = a.acts.iter().find(|n| a.is_service(**n)) {
            ops.push(Op::AddPath { v: d, nodes: vec![n] });
        }
    }
    ops
}

pub fn apply(a: &Arena, s: &Schedule, op: &Op) -> StepResult {
    let _ = crate::pool::take_last_panic();
    let r = std::panic::catch_unwind(std::panic::AssertUnwindSafe(|| -> Result<(Schedule, Ret), String> {
        let nw = a.nw.clone();
        match op {
            Op::Spawn { vt, nodes } => s.spawn_vehicle_for_path(*vt, nodes.clone()).map(|(n, v)| (n, Ret::Vehicle(v))),
            Op::ReplaceDummy { d, vt } => s.spawn_vehicle_to_replace_dummy_tour(*d, *vt).map(|(n, v)| (n, Ret::Vehicle(v))),
            Op::Delete { v } => s.replace_vehicle_by_dummy(*v).map(|n| (n, Ret::None)),
            Op::AddPath { v, nodes } => {
                let path = Path::new(nodes.clone(), nw)?.ok_or("path has no activity".to_string())?;
                s.add_path_to_vehicle_tour(*v, path).map(|(n, p)| (n, Ret::PathOpt(p.map(|p| p.iter().collect()))))
            }
            Op::Remove { v, a: x, b } => s.remove_segment(Segment::new(*x, *b), *v).map(|n| (n, Ret::None)),
            Op::Fit { p, r, a: x, b } => s.fit_reassign(Segment::new(*x, *b), *p, *r).map(|n| (n, Ret::None)),
            Op::Override { p, r, a: x, b } => s.override_reassign(Segment::new(*x, *b), *p, *r).map(|(n, d)| (n, Ret::DummyOpt(d))),
            Op::ImproveDepots { vs } => Ok((s.improve_depots(vs.clone()), Ret::None)),
            Op::EndGreedy => s.reassign_end_depots_greedily().map(|n| (n, Ret::None)),
            Op::EndConsistent => Ok((s.reassign_end_depots_consistent_with_transitions(), Ret::None)),
            Op::Recompute { vts } => Ok((s.recompute_transitions_for(vts.clone()), Ret::None)),
            Op::SetNewFast { vt } => {
                let mut map: ImHashMap<VehicleTypeIdx, Transition> = ImHashMap::new();
                for &t in &a.types {
                    if t == *vt {
                        let vs: Vec<VehicleIdx> = s.vehicles_iter(t).collect();
                        map.insert(t, Transition::new_fast(&vs, s.get_tours(), &a.nw));
                    } else {
                        map.insert(t, s.next_day_transition_of(t).clone());
                    }
                }
                Ok((s.set_next_day_transitions(map), Ret::None))
            }
            Op::SetMove { vt, v, cycle } => {
                let mut map: ImHashMap<VehicleTypeIdx, Transition> = ImHashMap::new();
                for &t in &a.types {
                    if t == *vt {
                        map.insert(t, s.next_day_transition_of(t).move_vehicle(*v, *cycle, s.get_tours(), &a.nw));
                    } else {
                        map.insert(t, s.next_day_transition_of(t).clone());
                    }
                }
                Ok((s.set_next_day_transitions(map), Ret::None))
            }
        }
    }));
    match r {
        Ok(Ok((n, ret))) => StepResult::Ok(n, ret),
        Ok(Err(e)) => StepResult::Err(e),
        Err(_) => {
            let (site, msg) = crate::pool::take_last_panic().unwrap_or(("?".into(), "?".into()));
            StepResult::Panic(site, msg)
        }
    }
}
