//! Worker processes with a watchdog.
//!
//! All solver-level subject code runs in `rsv worker` child processes.  A worker announces
//! `S <task>` / `E <task> <json>` on a private pipe (its stdout is redirected to /dev/null first, the
//! subject prints a lot).  The driver enforces a per-task horizon, kills and restarts a worker that
//! exceeds it and attributes the outcome: inside S/E it is the subject's (panic, abort, horizon),
//! outside it is a machinery failure.
use serde_json::Value;
use std::io::{BufRead, BufReader, Write};
use std::os::unix::io::FromRawFd;
use std::process::{Child, Command, Stdio};
use std::sync::atomic::{AtomicUsize, Ordering};
use std::sync::mpsc::{channel, Receiver, RecvTimeoutError};
use std::sync::Mutex;
use std::time::Duration;

#[derive(Debug, Clone)]
pub enum Outcome {
    /// worker answered; the JSON is the task's own result (may itself carry status "panic")
    Done(Value),
    /// no answer within the horizon; worker was killed
    Hang,
    /// worker process died inside the task (abort, stack overflow, OOM)
    Crash(String),
}

pub struct MachineryError(pub String);

struct Worker {
    child: Child,
    rx: Receiver<String>,
}

fn spawn_worker(exe: &std::path::Path) -> Result<Worker, MachineryError> {
    let mut child = Command::new(exe);
    child
        .arg("worker")
        .stdin(Stdio::piped())
        .stdout(Stdio::piped())
        .stderr(Stdio::null())
        .env("RAYON_NUM_THREADS", "1");
    // a worker must not outlive the check (a hanging subject spins forever): the kernel kills it when its parent dies
    unsafe {
        use std::os::unix::process::CommandExt;
        child.pre_exec(|| {
            libc::prctl(libc::PR_SET_PDEATHSIG, libc::SIGKILL);
            Ok(())
        });
    }
    let mut child = child
        .spawn()
        .map_err(|e| MachineryError(format!("cannot spawn worker: {}", e)))?;
    let out = child.stdout.take().unwrap();
    let (tx, rx) = channel();
    std::thread::spawn(move || {
        let r = BufReader::new(out);
        for line in r.lines() {
            match line {
                Ok(l) => {
                    if tx.send(l).is_err() {
                        break;
                    }
                }
                Err(_) => break,
            }
        }
    });
    Ok(Worker { child, rx })
}

/// Run tasks `0..n` on `nworkers` worker processes. `make(i)` yields the JSON payload of task i.
/// `on_result(i, outcome)` is called once per task (from several threads).
///
/// `stop` is polled before each dispatch: when it returns true no further task is started (tasks
/// are dispatched in index order, so everything below the returned count was dispatched).
/// Returns the number of tasks dispatched.
pub fn run_tasks(
    exe: &std::path::Path,
    n: usize,
    nworkers: usize,
    horizon: Duration,
    make: &(dyn Fn(usize) -> Value + Sync),
    on_result: &(dyn Fn(usize, Outcome) + Sync),
) -> Result<usize, MachineryError> {
    run_tasks_stoppable(exe, n, nworkers, horizon, make, on_result, &|| false)
}

pub fn run_tasks_stoppable(
    exe: &std::path::Path,
    n: usize,
    nworkers: usize,
    horizon: Duration,
    make: &(dyn Fn(usize) -> Value + Sync),
    on_result: &(dyn Fn(usize, Outcome) + Sync),
    stop: &(dyn Fn() -> bool + Sync),
) -> Result<usize, MachineryError> {
    let next = AtomicUsize::new(0);
    let err: Mutex<Option<String>> = Mutex::new(None);
    std::thread::scope(|s| {
        for _ in 0..nworkers.max(1).min(n.max(1)) {
            s.spawn(|| {
                let mut w = match spawn_worker(exe) {
                    Ok(w) => w,
                    Err(e) => {
                        *err.lock().unwrap() = Some(e.0);
                        return;
                    }
                };
                loop {
                    if err.lock().unwrap().is_some() {
                        break;
                    }
                    if stop() {
                        break;
                    }
                    let i = next.fetch_add(1, Ordering::SeqCst);
                    if i >= n {
                        break;
                    }
                    let mut payload = make(i);
                    payload["task"] = Value::from(i as u64);
                    let line = serde_json::to_string(&payload).unwrap();
                    let mut respawn = false;
                    let sent = {
                        let stdin = w.child.stdin.as_mut().unwrap();
                        stdin.write_all(line.as_bytes()).and_then(|_| stdin.write_all(b"\n")).and_then(|_| stdin.flush())
                    };
                    if sent.is_err() {
                        *err.lock().unwrap() = Some("worker died outside a task (stdin closed)".into());
                        break;
                    }
                    // wait for S
                    match w.rx.recv_timeout(Duration::from_secs(30)) {
                        Ok(l) if l == format!("S {}", i) => {}
                        Ok(l) => {
                            *err.lock().unwrap() = Some(format!("protocol error: expected 'S {}', got '{}'", i, l));
                            break;
                        }
                        Err(_) => {
                            *err.lock().unwrap() = Some(format!("worker did not start task {}", i));
                            break;
                        }
                    }
                    let prefix = format!("E {} ", i);
                    match w.rx.recv_timeout(horizon) {
                        Ok(l) if l.starts_with(&prefix) => match serde_json::from_str::<Value>(&l[prefix.len()..]) {
                            Ok(v) => on_result(i, Outcome::Done(v)),
                            Err(e) => {
                                *err.lock().unwrap() = Some(format!("unparseable worker answer: {}", e));
                                break;
                            }
                        },
                        Ok(l) => {
                            *err.lock().unwrap() = Some(format!("protocol error: expected 'E {}', got '{}'", i, l));
                            break;
                        }
                        Err(RecvTimeoutError::Timeout) => {
                            let _ = w.child.kill();
                            let _ = w.child.wait();
                            on_result(i, Outcome::Hang);
                            respawn = true;
                        }
                        Err(RecvTimeoutError::Disconnected) => {
                            let st = w.child.wait().map(|s| format!("{}", s)).unwrap_or_else(|e| e.to_string());
                            on_result(i, Outcome::Crash(st));
                            respawn = true;
                        }
                    }
                    if respawn {
                        w = match spawn_worker(exe) {
                            Ok(w) => w,
                            Err(e) => {
                                *err.lock().unwrap() = Some(e.0);
                                return;
                            }
                        };
                    }
                }
                drop(w.child.stdin.take());
                let _ = w.child.kill();
                let _ = w.child.wait();
            });
        }
    });
    match err.into_inner().unwrap() {
        Some(e) => Err(MachineryError(e)),
        None => Ok(next.load(Ordering::SeqCst).min(n)),
    }
}

// ------------------------------------------------------------------------------------------------
// worker side
// ------------------------------------------------------------------------------------------------

thread_local! {
    static LAST_PANIC: std::cell::RefCell<Option<(String, String)>> = std::cell::RefCell::new(None);
}

pub fn install_panic_recorder() {
    std::panic::set_hook(Box::new(|info| {
        let site = info.location().map(|l| l.file().to_string()).unwrap_or_else(|| "?".into());
        let msg = if let Some(s) = info.payload().downcast_ref::<&str>() {
            s.to_string()
        } else if let Some(s) = info.payload().downcast_ref::<String>() {
            s.clone()
        } else {
            "non-string panic".to_string()
        };
        let line = info.location().map(|l| l.line()).unwrap_or(0);
        if std::env::var("RSV_SHOW_PANICS").is_ok() {
            eprintln!("panic at {}:{}: {}", site, line, msg);
        }
        if let Ok(mut g) = GLOBAL_LAST_PANIC.lock() {
            *g = Some((format!("{}:{}", site, line), msg.clone()));
        }
        LAST_PANIC.with(|p| *p.borrow_mut() = Some((format!("{}:{}", site, line), msg)));
    }));
}

static HOOK: std::sync::Once = std::sync::Once::new();

/// make sure the (process-wide) recording panic hook is installed
pub fn install_panic_recorder_thread() {
    HOOK.call_once(install_panic_recorder);
}

/// last panic of any thread (for panics raised on rayon worker threads and re-thrown to the caller)
static GLOBAL_LAST_PANIC: std::sync::Mutex<Option<(String, String)>> = std::sync::Mutex::new(None);

pub fn take_last_panic() -> Option<(String, String)> {
    LAST_PANIC.with(|p| p.borrow_mut().take())
}

pub fn take_last_panic_any_thread() -> Option<(String, String)> {
    take_last_panic().or_else(|| GLOBAL_LAST_PANIC.lock().ok().and_then(|mut g| g.take()))
}

/// Run `f` with hash seed `seed` on a fresh single-threaded rayon pool (fresh thread => fresh
/// `RandomState` keys drawn from the seeded stream; all `par_iter` work runs on that one thread).
/// Panics are caught and reported as Err((site, message)).
pub fn run_isolated<T: Send>(seed: u64, f: impl FnOnce() -> T + Send) -> Result<T, (String, String)> {
    crate::hashseed::reset(seed);
    let pool = rayon::ThreadPoolBuilder::new().num_threads(1).stack_size(64 << 20).build().expect("rayon pool");
    pool.install(|| {
        let _ = take_last_panic();
        match std::panic::catch_unwind(std::panic::AssertUnwindSafe(f)) {
            Ok(v) => Ok(v),
            Err(_) => Err(take_last_panic().unwrap_or(("?".into(), "panic without message".into()))),
        }
    })
}

/// As `run_isolated`, but the seed is given to the pool's thread itself (thread-local stream), so that
/// many isolated runs may go on at the same time without sharing the global stream.
pub fn run_isolated_tl<T: Send>(seed: u64, f: impl FnOnce() -> T + Send) -> Result<T, (String, String)> {
    let pool = rayon::ThreadPoolBuilder::new()
        .num_threads(1)
        .stack_size(64 << 20)
        .start_handler(move |_| {
            crate::hashseed::seed_this_thread(seed);
            install_panic_recorder_thread();
        })
        .build()
        .expect("rayon pool");
    pool.install(|| {
        let _ = take_last_panic();
        match std::panic::catch_unwind(std::panic::AssertUnwindSafe(f)) {
            Ok(v) => Ok(v),
            Err(_) => Err(take_last_panic().unwrap_or(("?".into(), "panic without message".into()))),
        }
    })
}

pub fn worker_main(handle: &dyn Fn(&Value) -> Value) {
    install_panic_recorder();
    // private protocol channel = the original stdout; the subject's stdout goes to /dev/null
    let proto_fd = unsafe { libc::dup(1) };
    unsafe {
        let devnull = libc::open(b"/dev/null\0".as_ptr() as *const libc::c_char, libc::O_WRONLY);
        libc::dup2(devnull, 1);
        libc::close(devnull);
    }
    let mut proto = unsafe { std::fs::File::from_raw_fd(proto_fd) };
    let stdin = std::io::stdin();
    for line in stdin.lock().lines() {
        let line = match line {
            Ok(l) => l,
            Err(_) => break,
        };
        if line.trim().is_empty() {
            continue;
        }
        let task: Value = match serde_json::from_str(&line) {
            Ok(v) => v,
            Err(_) => break,
        };
        let id = task.get("task").and_then(|x| x.as_u64()).unwrap_or(0);
        let _ = writeln!(proto, "S {}", id);
        let _ = proto.flush();
        let res = handle(&task);
        let _ = writeln!(proto, "E {} {}", id, serde_json::to_string(&res).unwrap());
        let _ = proto.flush();
    }
}
