//! Engine D: explicit-state exploration of the rotation-cycle (`Transition`) operations (C15).
//! States are real `Transition` values plus the current tour of every member vehicle; transitions
//! are real calls; the oracle is a reference `Vec<Vec<VehicleIdx>>` with recomputed counters.
use crate::arena::Arena;
use crate::evidence::*;
use crate::sched_oracles::spec_figures;
use im::HashMap as ImHashMap;
use model::base_types::{NodeIdx, VehicleIdx, INF_DISTANCE};
use serde_json::{json, Value};
use solution::tour::Tour;
use solution::transition::Transition;
use solution::Schedule;
use std::collections::{BTreeMap, BTreeSet, HashSet};

pub const ARENA_CODE: &str = "0,0,0,0,7,2,1,0,0,0,0,0;0.0.0.1,0.1.1.1,0.0.3.1";

/// tour variants per vehicle as node ids
const VARIANTS: &[&[&[&str]]] = &[
    &[&["s_dA", "m0", "t0_s0", "e_dB"], &["s_dA", "t0_s0", "e_dB"], &["s_OVERFLOW_DEPOT", "t0_s0", "e_OVERFLOW_DEPOT"]],
    &[&["s_dB", "t1_s0", "e_dA"], &["s_dB", "t1_s0", "e_dB"], &["s_dA", "m0", "t1_s0", "e_dA"]],
    &[&["s_dA", "t2_s0", "e_dB"], &["s_dB", "t2_s0", "e_dA"]],
    &[&["s_dA", "t0_s0", "t1_s0", "e_dA"], &["s_dA", "m0", "t0_s0", "t1_s0", "t2_s0", "e_dB"]],
];

pub struct World {
    pub a: Arena,
    pub vehicles: Vec<VehicleIdx>,
    pub tours: Vec<Vec<Tour>>,
    pub tour_nodes: Vec<Vec<Vec<NodeIdx>>>,
    pub fresh: VehicleIdx,
    pub fresh_tour: Tour,
}

pub fn world() -> World {
    let a = Arena::load_no_inits("rotation", ARENA_CODE);
    let vt = a.types[0];
    let node = |id: &str| a.nw.all_nodes().find(|n| a.nw.node(*n).id() == id).unwrap_or_else(|| panic!("node {}", id));
    let empty = Schedule::empty(a.nw.clone());
    let mut tours = vec![];
    let mut tour_nodes = vec![];
    for vs in VARIANTS {
        let mut tv = vec![];
        let mut tn = vec![];
        for ids in vs.iter() {
            let ns: Vec<NodeIdx> = ids.iter().map(|i| node(i)).collect();
            let (s, v) = empty.spawn_vehicle_for_path(vt, ns.clone()).expect("variant tour");
            let t = s.tour_of(v).unwrap().clone();
            assert_eq!(t.all_nodes_iter().collect::<Vec<_>>(), ns, "variant tour was redirected");
            tv.push(t);
            tn.push(ns);
        }
        tours.push(tv);
        tour_nodes.push(tn);
    }
    let vehicles: Vec<VehicleIdx> = (0..VARIANTS.len()).map(|i| VehicleIdx::Vehicle(i as u16)).collect();
    let fresh = VehicleIdx::Vehicle(99);
    let fresh_tour = tours[2][0].clone();
    World { a, vehicles, tours, tour_nodes, fresh, fresh_tour }
}

#[derive(Clone)]
pub struct State {
    pub t: Transition,
    /// variant index of each member vehicle (None = not a member)
    pub var: Vec<Option<usize>>,
}

#[derive(Clone, Debug, PartialEq, Eq)]
pub enum Op {
    NewFast(Vec<usize>),
    Update(usize, usize),
    UpdateTwo(usize, usize, usize, usize),
    AddOwn(usize, usize),
    Remove(usize),
    AddAtEnd(usize, usize, usize),
    Move(usize, usize),
    ThreeOpt(usize, usize, usize, usize),
}

impl Op {
    pub fn to_json(&self) -> Value {
        match self {
            Op::NewFast(s) => json!({"op": "new_fast", "vehicles": s}),
            Op::Update(v, k) => json!({"op": "update_vehicle", "vehicle": v, "variant": k}),
            Op::UpdateTwo(v, k, w, l) => json!({"op": "update_vehicle x2 (second sees the first through updated_tours)", "vehicle": v, "variant": k, "vehicle2": w, "variant2": l}),
            Op::AddOwn(v, k) => json!({"op": "add_vehicle_to_own_cycle", "vehicle": v, "variant": k}),
            Op::Remove(v) => json!({"op": "remove_vehicle", "vehicle": v}),
            Op::AddAtEnd(v, k, c) => json!({"op": "add_vehicle_at_the_end", "vehicle": v, "variant": k, "cycle": c}),
            Op::Move(v, c) => json!({"op": "move_vehicle", "vehicle": v, "cycle": c}),
            Op::ThreeOpt(c, i, j, k) => json!({"op": "three_opt + replace_cycle", "cycle": c, "i": i, "j": j, "k": k}),
        }
    }
    pub fn from_json(j: &Value) -> Option<Op> {
        let u = |k: &str| j.get(k).and_then(|x| x.as_u64()).map(|x| x as usize);
        Some(match j.get("op")?.as_str()? {
            "new_fast" => Op::NewFast(j.get("vehicles")?.as_array()?.iter().filter_map(|x| x.as_u64().map(|y| y as usize)).collect()),
            "update_vehicle" => Op::Update(u("vehicle")?, u("variant")?),
            "add_vehicle_to_own_cycle" => Op::AddOwn(u("vehicle")?, u("variant")?),
            "remove_vehicle" => Op::Remove(u("vehicle")?),
            "add_vehicle_at_the_end" => Op::AddAtEnd(u("vehicle")?, u("variant")?, u("cycle")?),
            "move_vehicle" => Op::Move(u("vehicle")?, u("cycle")?),
            "three_opt + replace_cycle" => Op::ThreeOpt(u("cycle")?, u("i")?, u("j")?, u("k")?),
            _ => Op::UpdateTwo(u("vehicle")?, u("variant")?, u("vehicle2")?, u("variant2")?),
        })
    }
}

fn tour_map(w: &World, var: &[Option<usize>]) -> ImHashMap<VehicleIdx, Tour> {
    let mut m = ImHashMap::new();
    for (i, k) in var.iter().enumerate() {
        if let Some(k) = k {
            m.insert(w.vehicles[i], w.tours[i][*k].clone());
        }
    }
    m
}

fn cycles_of(t: &Transition) -> Vec<Vec<VehicleIdx>> {
    t.cycles_iter().map(|c| c.iter().collect()).collect()
}

pub fn enumerate(w: &World, s: &State) -> Vec<Op> {
    let n = w.vehicles.len();
    let mut ops = vec![];
    let members: Vec<usize> = (0..n).filter(|i| s.var[*i].is_some()).collect();
    let ncycles = s.t.number_of_cycles();
    let cyc = cycles_of(&s.t);
    for v in &members {
        for k in 0..w.tours[*v].len() {
            if Some(k) != s.var[*v] {
                ops.push(Op::Update(*v, k));
            }
        }
    }
    for v in &members {
        ops.push(Op::Remove(*v));
    }
    for v in &members {
        for c in 0..ncycles {
            if !cyc[c].contains(&w.vehicles[*v]) {
                ops.push(Op::Move(*v, c));
            }
        }
    }
    for v in 0..n {
        if s.var[v].is_none() {
            for k in 0..w.tours[v].len() {
                ops.push(Op::AddOwn(v, k));
                for c in 0..ncycles {
                    ops.push(Op::AddAtEnd(v, k, c));
                }
            }
        }
    }
    for (c, cv) in cyc.iter().enumerate() {
        let l = cv.len();
        if l >= 3 {
            for i in 0..l - 2 {
                for j in i + 1..l - 1 {
                    for k in j + 1..l {
                        ops.push(Op::ThreeOpt(c, i, j, k));
                    }
                }
            }
        }
    }
    // two vehicles of the same cycle updated in a row (as the schedule does for provider and receiver)
    for v in &members {
        for x in &members {
            if v < x {
                let kv = (s.var[*v].unwrap() + 1) % w.tours[*v].len();
                let kx = (s.var[*x].unwrap() + 1) % w.tours[*x].len();
                ops.push(Op::UpdateTwo(*v, kv, *x, kx));
            }
        }
    }
    // new_fast over every subset (current variants, variant 0 for non-members)
    for mask in 0u32..(1 << n) {
        ops.push(Op::NewFast((0..n).filter(|i| mask & (1 << i) != 0).collect()));
    }
    ops
}

pub fn apply(w: &World, s: &State, op: &Op) -> Result<State, (String, String)> {
    let _ = crate::pool::take_last_panic();
    let nw = &w.a.nw;
    let r = std::panic::catch_unwind(std::panic::AssertUnwindSafe(|| {
        let tours = tour_map(w, &s.var);
        let none: ImHashMap<VehicleIdx, &Tour> = ImHashMap::new();
        let mut var = s.var.clone();
        let t = match op {
            Op::NewFast(set) => {
                var = (0..w.vehicles.len()).map(|i| if set.contains(&i) { Some(s.var[i].unwrap_or(0)) } else { None }).collect();
                let tm = tour_map(w, &var);
                let vs: Vec<VehicleIdx> = set.iter().map(|i| w.vehicles[*i]).collect();
                Transition::new_fast(&vs, &tm, nw)
            }
            Op::Update(v, k) => {
                var[*v] = Some(*k);
                s.t.update_vehicle(w.vehicles[*v], &w.tours[*v][*k], &none, &tours, nw)
            }
            Op::UpdateTwo(v, k, x, l) => {
                var[*v] = Some(*k);
                var[*x] = Some(*l);
                let t1 = s.t.update_vehicle(w.vehicles[*v], &w.tours[*v][*k], &none, &tours, nw);
                let mut upd: ImHashMap<VehicleIdx, &Tour> = ImHashMap::new();
                upd.insert(w.vehicles[*v], &w.tours[*v][*k]);
                t1.update_vehicle(w.vehicles[*x], &w.tours[*x][*l], &upd, &tours, nw)
            }
            Op::AddOwn(v, k) => {
                var[*v] = Some(*k);
                s.t.add_vehicle_to_own_cycle(w.vehicles[*v], &w.tours[*v][*k], nw)
            }
            Op::Remove(v) => {
                var[*v] = None;
                s.t.remove_vehicle(w.vehicles[*v], &none, &tours, nw)
            }
            Op::AddAtEnd(v, k, c) => {
                var[*v] = Some(*k);
                let tm = tour_map(w, &var);
                s.t.add_vehicle_at_the_end(w.vehicles[*v], *c, &none, &tm, nw)
            }
            Op::Move(v, c) => s.t.move_vehicle(w.vehicles[*v], *c, &tours, nw),
            Op::ThreeOpt(c, i, j, k) => {
                let nc = s.t.get_cycle(*c).three_opt(*i, *j, *k, &tours, nw);
                s.t.replace_cycle(*c, nc)
            }
        };
        State { t, var }
    }));
    r.map_err(|_| crate::pool::take_last_panic().unwrap_or(("?".into(), "?".into())))
}

/// counter of one tour from the input alone
fn tour_counter(w: &World, nodes: &[NodeIdx]) -> i64 {
    let f = spec_figures(&w.a, nodes);
    let total = match f.dead_head {
        Some(d) => f.service + d,
        None => INF_DISTANCE as i64,
    };
    total - if f.visits { w.a.spec.max_dist } else { 0 }
}

fn transfer(w: &World, end_depot: NodeIdx, start_depot: NodeIdx) -> i64 {
    match (w.a.depot_loc[&end_depot], w.a.depot_loc[&start_depot]) {
        (Some(x), Some(y)) => w.a.spec.dh_dist[x][y],
        _ => INF_DISTANCE as i64,
    }
}

/// the slot a fresh vehicle's own cycle would take (behavioural fingerprint of the empty-cycle list)
fn probe_slot(w: &World, s: &State) -> Result<Option<usize>, String> {
    let before = cycles_of(&s.t);
    let r = std::panic::catch_unwind(std::panic::AssertUnwindSafe(|| s.t.add_vehicle_to_own_cycle(w.fresh, &w.fresh_tour, &w.a.nw)));
    match r {
        Err(_) => {
            let p = crate::pool::take_last_panic();
            Err(format!("adding a fresh vehicle panics: {:?}", p))
        }
        Ok(t2) => {
            let after = cycles_of(&t2);
            let mut slot = None;
            for i in 0..after.len() {
                let old: Vec<VehicleIdx> = before.get(i).cloned().unwrap_or_default();
                if after[i] != old {
                    if !old.is_empty() {
                        return Err(format!("adding a fresh vehicle to its own cycle overwrote the non-empty cycle {} {:?} (stale list of reusable empty cycles)", i, old));
                    }
                    if after[i] != vec![w.fresh] || slot.is_some() {
                        return Err(format!("adding a fresh vehicle changed cycle {} to {:?}", i, after[i]));
                    }
                    slot = Some(i);
                }
            }
            Ok(slot)
        }
    }
}

pub fn state_key(w: &World, s: &State) -> String {
    let slot = probe_slot(w, s).unwrap_or(Some(usize::MAX));
    format!("{:?}|{:?}|{:?}", cycles_of(&s.t), s.var, slot)
}

/// oracle on a state (and on the step that produced it)
pub fn check_state(w: &World, pre: Option<&State>, op: Option<&Op>, s: &State) -> Vec<(String, String)> {
    let mut v = vec![];
    let mut fail = |c: &str, d: String| v.push((c.to_string(), d));
    let cyc = cycles_of(&s.t);
    let members: BTreeSet<VehicleIdx> = (0..w.vehicles.len()).filter(|i| s.var[*i].is_some()).map(|i| w.vehicles[i]).collect();
    // each member exactly once
    let mut count: BTreeMap<VehicleIdx, usize> = BTreeMap::new();
    for c in &cyc {
        for x in c {
            *count.entry(*x).or_insert(0) += 1;
        }
    }
    for m in &members {
        if count.get(m) != Some(&1) {
            fail("partition", format!("{} appears {} times in the cycles {:?}", m, count.get(m).copied().unwrap_or(0), cyc));
        }
    }
    for x in count.keys() {
        if !members.contains(x) {
            fail("partition", format!("cycles {:?} contain {} which is not a member", cyc, x));
        }
    }
    // reference effect of the step on the cycle lists
    if let (Some(p), Some(op)) = (pre, op) {
        let before = cycles_of(&p.t);
        let same_except = |idx: &[usize]| -> bool { (0..before.len().max(cyc.len())).all(|i| idx.contains(&i) || before.get(i) == cyc.get(i)) };
        match op {
            Op::NewFast(_) => {}
            Op::Update(..) | Op::UpdateTwo(..) => {
                if before != cyc {
                    fail("cycles-effect", format!("update_vehicle changed the cycles {:?} -> {:?}", before, cyc));
                }
            }
            Op::AddOwn(x, _) => {
                let changed: Vec<usize> = (0..cyc.len()).filter(|i| before.get(*i) != cyc.get(*i)).collect();
                let ok = changed.len() == 1 && before.get(changed[0]).map(|c| c.is_empty()).unwrap_or(true) && cyc[changed[0]] == vec![w.vehicles[*x]] && cyc.len() >= before.len();
                if !ok {
                    fail("cycles-effect", format!("add_vehicle_to_own_cycle({}) turned {:?} into {:?}", w.vehicles[*x], before, cyc));
                }
            }
            Op::Remove(x) => {
                let exp: Vec<Vec<VehicleIdx>> = before.iter().map(|c| c.iter().copied().filter(|y| *y != w.vehicles[*x]).collect()).collect();
                if exp != cyc {
                    fail("cycles-effect", format!("remove_vehicle({}) turned {:?} into {:?}", w.vehicles[*x], before, cyc));
                }
            }
            Op::AddAtEnd(x, _, c) => {
                let mut exp = before.clone();
                exp[*c].push(w.vehicles[*x]);
                if exp != cyc {
                    fail("cycles-effect", format!("add_vehicle_at_the_end({}, {}) turned {:?} into {:?}", w.vehicles[*x], c, before, cyc));
                }
            }
            Op::Move(x, c) => {
                let mut exp: Vec<Vec<VehicleIdx>> = before.iter().map(|cc| cc.iter().copied().filter(|y| *y != w.vehicles[*x]).collect()).collect();
                exp[*c].push(w.vehicles[*x]);
                if exp != cyc {
                    fail("cycles-effect", format!("move_vehicle({}, {}) turned {:?} into {:?}", w.vehicles[*x], c, before, cyc));
                }
            }
            Op::ThreeOpt(c, ..) => {
                let mut a1 = before[*c].clone();
                let mut a2 = cyc.get(*c).cloned().unwrap_or_default();
                a1.sort();
                a2.sort();
                if a1 != a2 || !same_except(&[*c]) {
                    fail("cycles-effect", format!("3-opt on cycle {} turned {:?} into {:?}", c, before, cyc));
                }
            }
        }
    }
    // successor lookup
    for c in &cyc {
        for (i, x) in c.iter().enumerate() {
            if count.get(x) != Some(&1) {
                continue;
            }
            let exp = c[(i + 1) % c.len()];
            match std::panic::catch_unwind(std::panic::AssertUnwindSafe(|| s.t.get_successor_of(*x))) {
                Ok(got) => {
                    if got != exp {
                        fail("successor-lookup", format!("successor of {} is {} but its cycle {:?} says {}", x, got, c, exp));
                    }
                }
                Err(_) => {
                    let _ = crate::pool::take_last_panic();
                    fail("successor-lookup", format!("get_successor_of({}) panics although it is in cycle {:?}", x, c));
                }
            }
        }
    }
    // counters
    let nodes_of = |x: &VehicleIdx| -> Option<&Vec<NodeIdx>> {
        let i = w.vehicles.iter().position(|y| y == x)?;
        s.var[i].map(|k| &w.tour_nodes[i][k])
    };
    let (mut tv, mut tc) = (0i64, 0i64);
    let mut all_known = true;
    for (ci, c) in s.t.cycles_iter().enumerate() {
        let vs: Vec<VehicleIdx> = c.iter().collect();
        let mut cnt = 0i64;
        let mut known = true;
        for (i, x) in vs.iter().enumerate() {
            match (nodes_of(x), nodes_of(&vs[(i + 1) % vs.len()])) {
                (Some(a), Some(b)) => cnt += tour_counter(w, a) + transfer(w, *a.last().unwrap(), b[0]),
                _ => known = false,
            }
        }
        if known {
            if c.maintenance_counter() != cnt {
                fail("cycle-counter", format!("cycle {} {:?}: cached counter {}, recomputed {}", ci, vs, c.maintenance_counter(), cnt));
            }
            tv += cnt.max(0);
            tc += cnt;
        } else {
            all_known = false;
        }
    }
    if all_known {
        if s.t.maintenance_violation() != tv {
            fail("total-violation", format!("cached total violation {}, recomputed {}", s.t.maintenance_violation(), tv));
        }
        if s.t.maintenance_counter() != tc {
            fail("total-counter", format!("cached total counter {}, recomputed {}", s.t.maintenance_counter(), tc));
        }
    }
    // reusable-empty-cycle list, probed behaviourally
    if let Err(e) = probe_slot(w, s) {
        fail("empty-cycle-list", e);
    }
    // the code's own consistency check (lookup and empty list are not observable otherwise)
    let tm = tour_map(w, &s.var);
    if std::panic::catch_unwind(std::panic::AssertUnwindSafe(|| s.t.verify_consistency(&tm, &w.a.nw))).is_err() {
        let p = crate::pool::take_last_panic();
        fail("verify-consistency", format!("Transition::verify_consistency fails: {:?}", p.map(|x| x.1)));
    }
    v
}

#[derive(Default)]
pub struct Stats {
    pub states: usize,
    pub transitions: usize,
    pub panics: usize,
    pub per_op: BTreeMap<&'static str, usize>,
    pub per_depth: Vec<usize>,
    pub negative_counter_states: usize,
    pub empty_cycle_states: usize,
}

pub struct Found {
    pub history: Vec<Op>,
    pub clause: String,
    pub detail: String,
}

fn kind(op: &Op) -> &'static str {
    match op {
        Op::NewFast(_) => "new_fast",
        Op::Update(..) => "update_vehicle",
        Op::UpdateTwo(..) => "update_vehicle_x2",
        Op::AddOwn(..) => "add_vehicle_to_own_cycle",
        Op::Remove(_) => "remove_vehicle",
        Op::AddAtEnd(..) => "add_vehicle_at_the_end",
        Op::Move(..) => "move_vehicle",
        Op::ThreeOpt(..) => "three_opt+replace_cycle",
    }
}

pub fn explore(w: &World, depth: usize, st: &mut Stats, found: &mut Vec<Found>) {
    let init = State { t: Transition::new_fast(&[], &ImHashMap::new(), &w.a.nw), var: vec![None; w.vehicles.len()] };
    let mut seen: HashSet<String> = HashSet::new();
    seen.insert(state_key(w, &init));
    let mut frontier: Vec<(State, Vec<Op>)> = vec![(init, vec![])];
    st.states = 1;
    st.per_depth.push(1);
    let nthreads = std::thread::available_parallelism().map(|n| n.get()).unwrap_or(8);
    for d in 0..depth {
        let last = d + 1 == depth;
        let chunk = ((frontier.len() + nthreads - 1) / nthreads).max(1);
        let results: Vec<(Vec<(String, State, Vec<Op>)>, usize, usize, BTreeMap<&'static str, usize>, Vec<Found>, usize, usize)> = std::thread::scope(|sc| {
            let hs: Vec<_> = frontier
                .chunks(chunk)
                .map(|items| {
                    sc.spawn(move || {
                        crate::pool::install_panic_recorder_thread();
                        let mut out = vec![];
                        let (mut tr, mut pn, mut neg, mut emp) = (0usize, 0usize, 0usize, 0usize);
                        let mut per: BTreeMap<&'static str, usize> = BTreeMap::new();
                        let mut fnd: Vec<Found> = vec![];
                        for (s, h) in items {
                            for op in enumerate(w, s) {
                                *per.entry(kind(&op)).or_insert(0) += 1;
                                let mut hh = h.clone();
                                hh.push(op.clone());
                                match apply(w, s, &op) {
                                    Ok(n) => {
                                        tr += 1;
                                        for (c, dd) in check_state(w, Some(s), Some(&op), &n) {
                                            if fnd.len() < 500 {
                                                fnd.push(Found { history: hh.clone(), clause: c, detail: dd });
                                            }
                                        }
                                        if n.t.cycles_iter().any(|c| c.maintenance_counter() < 0) {
                                            neg += 1;
                                        }
                                        if n.t.cycles_iter().any(|c| c.is_empty()) {
                                            emp += 1;
                                        }
                                        let k = state_key(w, &n);
                                        out.push((k, if last { State { t: n.t.clone(), var: vec![] } } else { n }, if last { vec![] } else { hh }));
                                    }
                                    Err((site, msg)) => {
                                        pn += 1;
                                        let short: String = msg.chars().take(80).collect();
                                        if fnd.len() < 500 {
                                            fnd.push(Found { history: hh, clause: format!("panic:{}:{}", site_without_line(&site), short), detail: format!("{} panicked at {}: {}", kind(&op), site, short) });
                                        }
                                    }
                                }
                            }
                        }
                        (out, tr, pn, per, fnd, neg, emp)
                    })
                })
                .collect();
            hs.into_iter().map(|h| h.join().expect("explorer thread")).collect()
        });
        let mut next = vec![];
        let mut new_states = 0;
        for (out, tr, pn, per, fnd, neg, emp) in results {
            st.transitions += tr;
            st.panics += pn;
            st.negative_counter_states += neg;
            st.empty_cycle_states += emp;
            for (k, c) in per {
                *st.per_op.entry(k).or_insert(0) += c;
            }
            found.extend(fnd);
            for (k, s, h) in out {
                if seen.insert(k) {
                    new_states += 1;
                    if !last {
                        next.push((s, h));
                    }
                }
            }
        }
        st.states += new_states;
        st.per_depth.push(new_states);
        frontier = next;
        if new_states == 0 {
            break; // closed: every reachable state has been expanded
        }
    }
}

pub fn replay_history(w: &World, ops: &[Op]) -> Result<Vec<(String, String)>, String> {
    let mut s = State { t: Transition::new_fast(&[], &ImHashMap::new(), &w.a.nw), var: vec![None; w.vehicles.len()] };
    let mut last = vec![];
    for (i, op) in ops.iter().enumerate() {
        match apply(w, &s, op) {
            Ok(n) => {
                last = check_state(w, Some(&s), Some(op), &n);
                s = n;
            }
            Err((site, msg)) => {
                let short: String = msg.chars().take(80).collect();
                if i + 1 < ops.len() {
                    return Err(format!("history diverged at step {}: panic at {}", i + 1, site));
                }
                last = vec![(format!("panic:{}:{}", site_without_line(&site), short), format!("panicked at {}: {}", site, short))];
            }
        }
    }
    Ok(last)
}

pub fn depth_for(tier: &str) -> usize {
    std::env::var("RSV_DEPTH").ok().and_then(|s| s.parse().ok()).unwrap_or(if tier == "thorough" { 10 } else { 5 })
}

/// runs the exploration part and fills the report; returns the number of violations found
pub fn run_into(report: &mut Report, tier: &str) {
    let w = world();
    let depth = depth_for(tier);
    let mut st = Stats::default();
    let mut found = vec![];
    explore(&w, depth, &mut st, &mut found);
    if tier == "thorough" {
        let mut st2 = Stats::default();
        let mut f2 = vec![];
        explore(&w, depth, &mut st2, &mut f2);
        if (st2.states, st2.transitions) != (st.states, st.transitions) {
            machinery_error("C15", &format!("two runs disagree: {:?} vs {:?}", (st.states, st.transitions), (st2.states, st2.transitions)));
        }
    }
    found.sort_by_key(|f| f.history.len());
    let mut by_clause: BTreeMap<String, usize> = BTreeMap::new();
    let mut seen = BTreeSet::new();
    let mut kept = 0;
    for f in &found {
        *by_clause.entry(f.clause.clone()).or_insert(0) += 1;
        let first = seen.insert(f.clause.clone());
        if !first && kept >= 8 {
            continue;
        }
        kept += 1;
        let ops: Vec<Value> = f.history.iter().map(|o| o.to_json()).collect();
        if kept <= 4 {
            let r1 = replay_history(&w, &f.history);
            let r2 = replay_history(&w, &f.history);
            if r1 != r2 {
                machinery_error("C15", &format!("replay diverged: {:?} vs {:?}", r1, r2));
            }
            if !r1.map(|v| v.iter().any(|(c, _)| *c == f.clause)).unwrap_or(false) {
                machinery_error("C15", &format!("violation {} did not reproduce on replay", f.clause));
            }
        }
        let ops_txt = serde_json::to_string(&ops).unwrap();
        let sig = if f.clause.starts_with("panic:") { f.clause.clone() } else { format!("{}:{}", f.clause, digest(&ops_txt)) };
        report.violation(Violation {
            signature: sig,
            what: format!("{}: {} -- after {} rotation-cycle operation(s): {}", f.clause, f.detail, f.history.len(), ops_txt),
            replay: json!({"engine": "trans-mc", "arena_code": ARENA_CODE, "operations": ops, "failing_clause": f.clause, "tour_variants": VARIANTS}),
        });
    }
    report.violation_total += found.len();
    report.cov("states", json!(st.states));
    report.cov("transitions", json!(st.transitions));
    report.cov("traces_validated_against_impl", json!(st.transitions));
    report.cov("depth", json!(depth));
    report.cov("states_per_depth", json!(st.per_depth));
    report.cov("state_space_closed", json!(st.per_depth.last() == Some(&0)));
    report.cov("note_on_closure", json!("if the last level adds no new state the exploration has reached every state reachable with this vehicle / tour-variant set at any depth"));
    report.cov("calls_per_operation", json!(st.per_op));
    report.cov("panicking_calls", json!(st.panics));
    report.cov("transitions_into_states_with_a_negative_cycle_counter", json!(st.negative_counter_states));
    report.cov("transitions_into_states_with_an_empty_cycle", json!(st.empty_cycle_states));
    report.cov("exploration_violations_by_clause", json!(by_clause));
    report.cov("vehicles", json!(w.vehicles.len()));
    report.cov("tour_variants", json!(VARIANTS));
    report.cov("samples", json!([{"history": [Op::AddOwn(0, 0).to_json(), Op::AddAtEnd(1, 0, 0).to_json(), Op::Move(0, 1).to_json()], "note": "each step is checked against the reference cycles, successor lookup, recomputed counters and the empty-cycle probe"}]));
}

pub fn replay(path: &str) -> i32 {
    let txt = std::fs::read_to_string(path).unwrap_or_else(|e| machinery_error("C15", &format!("cannot read {}: {}", path, e)));
    let r: Value = serde_json::from_str(&txt).unwrap_or_else(|e| machinery_error("C15", &format!("bad replay file: {}", e)));
    let ops: Vec<Op> = r["operations"].as_array().map(|a| a.iter().filter_map(Op::from_json).collect()).unwrap_or_default();
    let w = world();
    match replay_history(&w, &ops) {
        Ok(v) if v.is_empty() => {
            crate::say!("replay passes");
            0
        }
        Ok(v) => {
            for (c, d) in v {
                crate::say!("  {}: {}", c, d);
            }
            crate::say!("VIOLATION property=C15 replay={}", path);
            1
        }
        Err(e) => machinery_error("C15", &e),
    }
}
