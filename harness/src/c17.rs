//! C17: the loaded `Network` vs the input JSON (through `spec`).
use crate::spec::{Kind, Spec, OVERFLOW_DEPOT_ID};
use model::base_types::{Location, NodeIdx};
use model::network::nodes::Node;
use model::network::Network;
use std::collections::{BTreeMap, BTreeSet};

/// what a network node is in spec terms
#[derive(Clone, Copy, Debug, PartialEq, Eq)]
pub enum SNode {
    Act(usize),
    Start(usize), // index into depot list `dn`
    End(usize),
}

pub struct NodeMap {
    pub of: BTreeMap<NodeIdx, SNode>,
    pub act_node: Vec<Option<NodeIdx>>,
}

fn loc_name(nw: &Network, l: Location) -> String {
    nw.locations().get_id(l).unwrap_or_else(|_| "?".into())
}

fn time_of(t: rapid_time::DateTime) -> i64 {
    crate::spec::parse_out_time(&t.as_iso()).unwrap_or(i64::MIN)
}

/// Map network nodes to spec activities by id. Errors are C17 violations (node set mismatch).
pub fn node_map(spec: &Spec, nw: &Network, viol: &mut Vec<(String, String)>) -> NodeMap {
    let mut of = BTreeMap::new();
    let mut act_node = vec![None; spec.acts.len()];
    let mut depot_names: Vec<String> = vec![];
    for n in nw.all_nodes() {
        match nw.node(n) {
            Node::Service(_) | Node::Maintenance(_) => {
                let id = nw.node(n).id().to_string();
                match spec.act_by_id(&id) {
                    Some(ai) => {
                        if act_node[ai].is_some() {
                            viol.push(("node-duplicate".into(), format!("two nodes for activity {}", id)));
                        }
                        act_node[ai] = Some(n);
                        of.insert(n, SNode::Act(ai));
                    }
                    None => viol.push(("node-unknown".into(), format!("network has node {} which is not in the input", id))),
                }
            }
            Node::StartDepot((_, d)) => {
                let name = nw.get_depot(d.depot_idx()).id().to_string();
                let k = depot_names.iter().position(|x| *x == name).unwrap_or_else(|| {
                    depot_names.push(name.clone());
                    depot_names.len() - 1
                });
                of.insert(n, SNode::Start(k));
            }
            Node::EndDepot((_, d)) => {
                let name = nw.get_depot(d.depot_idx()).id().to_string();
                let k = depot_names.iter().position(|x| *x == name).unwrap_or_else(|| {
                    depot_names.push(name.clone());
                    depot_names.len() - 1
                });
                of.insert(n, SNode::End(k));
            }
        }
    }
    for (ai, a) in spec.acts.iter().enumerate() {
        if act_node[ai].is_none() {
            viol.push(("node-missing".into(), format!("no node for activity {}", a.id)));
        }
    }
    NodeMap { of, act_node }
}

pub fn spec_can_reach(spec: &Spec, a: SNode, b: SNode) -> bool {
    match (a, b) {
        (_, SNode::Start(_)) | (SNode::End(_), _) => false,
        (SNode::Start(_), _) | (_, SNode::End(_)) => true,
        (SNode::Act(x), SNode::Act(y)) => spec.reach(x, y),
    }
}

pub fn check(spec: &Spec, nw: &Network) -> (Vec<(String, String)>, bool) {
    let mut viol: Vec<(String, String)> = vec![];
    let mut fail = |c: &str, d: String| viol.push((c.to_string(), d));

    // vehicle types
    let vts: Vec<_> = nw.vehicle_types().iter().collect();
    let mut type_of = BTreeMap::new(); // VehicleTypeIdx -> spec type index
    for vt in &vts {
        let t = nw.vehicle_types().get(*vt).unwrap();
        match spec.type_by_id(t.id()) {
            Some(i) => {
                type_of.insert(*vt, i);
                let s = &spec.types[i];
                if t.capacity() as i64 != s.capacity || t.seats() as i64 != s.seats || t.maximal_formation_count().map(|x| x as i64) != s.limit {
                    fail("vehicle-type-fields", format!("type {} loaded as capacity {} seats {} limit {:?}", s.id, t.capacity(), t.seats(), t.maximal_formation_count()));
                }
            }
            None => fail("vehicle-type-unknown", format!("network has type {}", t.id())),
        }
    }
    if vts.len() != spec.types.len() {
        fail("vehicle-type-count", format!("{} types loaded, {} in the input", vts.len(), spec.types.len()));
    }

    let mut v2 = vec![];
    let nm = node_map(spec, nw, &mut v2);
    for x in v2 {
        fail(&x.0, x.1);
    }

    // per-node fields
    for (ai, a) in spec.acts.iter().enumerate() {
        let n = match nm.act_node[ai] {
            Some(n) => n,
            None => continue,
        };
        let node = nw.node(n);
        let mut bad = vec![];
        if loc_name(nw, node.start_location()) != spec.locs[a.origin] {
            bad.push(format!("origin {}", loc_name(nw, node.start_location())));
        }
        if loc_name(nw, node.end_location()) != spec.locs[a.dest] {
            bad.push(format!("destination {}", loc_name(nw, node.end_location())));
        }
        if time_of(node.start_time()) != a.start {
            bad.push(format!("start {}", node.start_time().as_iso()));
        }
        if time_of(node.end_time()) != a.end {
            bad.push(format!("end {}", node.end_time().as_iso()));
        }
        match (&a.kind, node) {
            (Kind::Seg { vt, pax, seated, seg_limit, dist }, Node::Service((_, s))) => {
                if type_of.get(&s.vehicle_type()) != Some(vt) {
                    bad.push("vehicle type".into());
                }
                if node.travel_distance().in_meter().ok().map(|d| d as i64) != Some(*dist) {
                    bad.push(format!("distance {}", node.travel_distance()));
                }
                if s.passengers() as i64 != *pax {
                    bad.push(format!("passengers {}", s.passengers()));
                }
                if s.seated() as i64 != *seated {
                    bad.push(format!("seated {}", s.seated()));
                }
                if s.maximal_formation_count().map(|x| x as i64) != *seg_limit {
                    bad.push(format!("formation limit {:?}", s.maximal_formation_count()));
                }
            }
            (Kind::Slot { tracks }, Node::Maintenance((_, m))) => {
                if m.track_count() as i64 != *tracks {
                    bad.push(format!("track count {}", m.track_count()));
                }
            }
            _ => bad.push("node kind".into()),
        }
        if !bad.is_empty() {
            fail("node-fields", format!("{} loaded with wrong {}", a.id, bad.join(", ")));
        }
    }

    // depots
    let mut seen_depots = BTreeSet::new();
    let need_per_type: Vec<i64> = (0..spec.types.len()).map(|t| (0..spec.n_segs).filter(|&i| spec.acts[i].vt() == Some(t)).map(|i| spec.cover_lb(i)).sum()).collect();
    let need_total: i64 = need_per_type.iter().sum();
    for d in nw.depots_iter() {
        let dep = nw.get_depot(d);
        let id = dep.id().to_string();
        seen_depots.insert(id.clone());
        let sn = nw.get_start_depot_node(d);
        let en = nw.get_end_depot_node(d);
        if !nw.node(sn).is_start_depot() || !nw.node(en).is_end_depot() || nw.get_depot_idx(sn) != d || nw.get_depot_idx(en) != d {
            fail("depot-nodes", format!("depot {} has inconsistent start/end nodes", id));
        }
        if nw.node(sn).start_location() != dep.location() || nw.node(en).start_location() != dep.location() {
            fail("depot-nodes", format!("depot {}: node location differs from depot location", id));
        }
        if id == OVERFLOW_DEPOT_ID {
            if d != nw.overflow_depot_idxs().0 {
                fail("overflow-depot", "OVERFLOW_DEPOT is not the designated overflow depot".into());
            }
            // "can always host every vehicle": necessary condition only
            for (vt, &t) in &type_of {
                if (dep.capacity_for(*vt) as i64) < need_per_type[t] {
                    fail("overflow-capacity", format!("overflow depot admits {} vehicles of type {}, but covering the demand needs up to {}", dep.capacity_for(*vt), spec.types[t].id, need_per_type[t]));
                }
            }
            if (dep.total_capacity() as i64) < need_total {
                fail("overflow-capacity", format!("overflow depot admits {} vehicles in total, but covering the demand needs up to {}", dep.total_capacity(), need_total));
            }
            continue;
        }
        match spec.depot_by_id(&id) {
            None => fail("depot-unknown", format!("network has depot {}", id)),
            Some(di) => {
                let sd = &spec.depots[di];
                if loc_name(nw, dep.location()) != spec.locs[sd.loc] {
                    fail("depot-location", format!("depot {} at {}", id, loc_name(nw, dep.location())));
                }
                match sd.total {
                    Some(t) => {
                        if dep.total_capacity() as i64 != t {
                            fail("depot-capacity", format!("depot {} total capacity {} instead of {}", id, dep.total_capacity(), t));
                        }
                    }
                    None => {
                        if (dep.total_capacity() as i64) < need_total {
                            fail("depot-not-unlimited", format!("defaulted depot {} admits {} vehicles, covering the demand may need {}", id, dep.total_capacity(), need_total));
                        }
                    }
                }
                for (vt, &t) in &type_of {
                    match sd.capacity_for(t) {
                        Some(c) => {
                            if dep.capacity_for(*vt) as i64 != c {
                                fail("depot-capacity", format!("depot {} capacity for type {} is {} instead of {}", id, spec.types[t].id, dep.capacity_for(*vt), c));
                            }
                        }
                        None => {
                            if (dep.capacity_for(*vt) as i64) < need_per_type[t] {
                                fail("depot-not-unlimited", format!("defaulted depot {} admits {} vehicles of type {}, covering the demand may need {}", id, dep.capacity_for(*vt), spec.types[t].id, need_per_type[t]));
                            }
                        }
                    }
                }
            }
        }
    }
    for d in &spec.depots {
        if !seen_depots.contains(&d.id) {
            fail("depot-missing", format!("depot {} not loaded", d.id));
        }
    }
    if !seen_depots.contains(OVERFLOW_DEPOT_ID) {
        fail("overflow-depot", "no overflow depot".into());
    }

    // reachability on all ordered pairs
    let nodes: Vec<(NodeIdx, SNode)> = nm.of.iter().map(|(k, v)| (*k, *v)).collect();
    for &(a, sa) in &nodes {
        for &(b, sb) in &nodes {
            let checked = matches!((sa, sb), (SNode::Act(_), SNode::Act(_)) | (SNode::Start(_), SNode::Act(_)) | (SNode::Act(_), SNode::End(_)));
            if checked && nw.can_reach(a, b) != spec_can_reach(spec, sa, sb) {
                fail("can-reach", format!("can_reach({}, {}) = {} but the documented rule gives {}", nw.node(a).id(), nw.node(b).id(), nw.can_reach(a, b), spec_can_reach(spec, sa, sb)));
            }
        }
    }
    // successors / predecessors
    for (vt, &t) in &type_of {
        let of_type = |s: SNode| match s {
            SNode::Act(i) => spec.acts[i].vt().map(|x| x == t).unwrap_or(true),
            _ => true,
        };
        for &(n, sn) in &nodes {
            if !of_type(sn) {
                continue;
            }
            let succ: BTreeSet<NodeIdx> = nw.successors(*vt, n).collect();
            let pred: BTreeSet<NodeIdx> = nw.predecessors(*vt, n).collect();
            let exp_succ: BTreeSet<NodeIdx> = nodes.iter().filter(|(_, sm)| of_type(*sm) && spec_can_reach(spec, sn, *sm)).map(|(m, _)| *m).collect();
            let exp_pred: BTreeSet<NodeIdx> = nodes.iter().filter(|(_, sm)| of_type(*sm) && spec_can_reach(spec, *sm, sn)).map(|(m, _)| *m).collect();
            if succ != exp_succ {
                let names = |s: &BTreeSet<NodeIdx>| s.iter().map(|x| nw.node(*x).id().to_string()).collect::<Vec<_>>().join(",");
                fail("successors", format!("successors({}, {}) = {{{}}} expected {{{}}}", spec.types[t].id, nw.node(n).id(), names(&succ), names(&exp_succ)));
            }
            if pred != exp_pred {
                let names = |s: &BTreeSet<NodeIdx>| s.iter().map(|x| nw.node(*x).id().to_string()).collect::<Vec<_>>().join(",");
                fail("predecessors", format!("predecessors({}, {}) = {{{}}} expected {{{}}}", spec.types[t].id, nw.node(n).id(), names(&pred), names(&exp_pred)));
            }
        }
    }
    (viol, spec.has_tie())
}
