//! Independent specification side of the oracles.
//!
//! Everything here is computed from the *input JSON* (and, for output-level oracles, the *output
//! JSON*) alone, following the README and the property statements.  Nothing is imported from the
//! repository crates.
#![allow(dead_code)]

use serde_json::Value;
use std::collections::BTreeMap;

pub const OVERFLOW_DEPOT_ID: &str = "OVERFLOW_DEPOT";

#[derive(Clone, Debug)]
pub struct VType {
    pub id: String,
    pub capacity: i64,
    pub seats: i64,
    pub limit: Option<i64>,
}

#[derive(Clone, Debug)]
pub struct Depot {
    pub id: String,
    pub loc: usize,
    /// None = unlimited (defaulted depots)
    pub total: Option<i64>,
    /// per type: None = type not allowed, Some(None) = no type specific limit, Some(Some(c))
    pub per_type: Vec<Option<Option<i64>>>,
}

impl Depot {
    /// capacity for a type; None = unlimited
    pub fn capacity_for(&self, t: usize) -> Option<i64> {
        match (&self.per_type[t], self.total) {
            (None, _) => Some(0),
            (Some(None), tot) => tot,
            (Some(Some(c)), None) => Some(*c),
            (Some(Some(c)), Some(tot)) => Some((*c).min(tot)),
        }
    }
}

#[derive(Clone, Debug, PartialEq)]
pub enum Kind {
    Seg { vt: usize, pax: i64, seated: i64, seg_limit: Option<i64>, dist: i64 },
    Slot { tracks: i64 },
}

#[derive(Clone, Debug)]
pub struct Act {
    pub id: String,
    pub kind: Kind,
    pub origin: usize,
    pub dest: usize,
    pub start: i64,
    pub end: i64,
}

impl Act {
    pub fn is_seg(&self) -> bool {
        matches!(self.kind, Kind::Seg { .. })
    }
    pub fn is_slot(&self) -> bool {
        matches!(self.kind, Kind::Slot { .. })
    }
    pub fn vt(&self) -> Option<usize> {
        match self.kind {
            Kind::Seg { vt, .. } => Some(vt),
            _ => None,
        }
    }
    pub fn dist(&self) -> i64 {
        match self.kind {
            Kind::Seg { dist, .. } => dist,
            _ => 0,
        }
    }
}

#[derive(Clone, Debug)]
pub struct Spec {
    pub types: Vec<VType>,
    pub locs: Vec<String>,
    pub depots: Vec<Depot>,
    pub depots_given: bool,
    pub acts: Vec<Act>,
    pub n_segs: usize,
    pub dh_time: Vec<Vec<i64>>,
    pub dh_dist: Vec<Vec<i64>>,
    pub shunt_min: i64,
    pub shunt_dh: i64,
    pub forbid: bool,
    pub max_dist: i64,
    pub cost_staff: i64,
    pub cost_service: i64,
    pub cost_maint: i64,
    pub cost_dh: i64,
    pub cost_idle: i64,
}

/// days since 1970-01-01 (proleptic Gregorian), Howard Hinnant's algorithm
fn days_from_civil(y: i64, m: i64, d: i64) -> i64 {
    let y = if m <= 2 { y - 1 } else { y };
    let era = if y >= 0 { y } else { y - 399 } / 400;
    let yoe = y - era * 400;
    let mp = (m + 9) % 12;
    let doy = (153 * mp + 2) / 5 + d - 1;
    let doe = yoe * 365 + yoe / 4 - yoe / 100 + doy;
    era * 146097 + doe - 719468
}

/// "2023-07-24T12:00:00" (fields may have one digit) -> seconds since epoch
pub fn parse_time(s: &str) -> Result<i64, String> {
    let parts: Vec<&str> = s.split(|c: char| !c.is_ascii_digit()).filter(|p| !p.is_empty()).collect();
    if parts.len() != 6 {
        return Err(format!("cannot parse time '{}'", s));
    }
    let n: Vec<i64> = parts.iter().map(|p| p.parse::<i64>().unwrap()).collect();
    Ok(days_from_civil(n[0], n[1], n[2]) * 86400 + n[3] * 3600 + n[4] * 60 + n[5])
}

fn gs<'a>(v: &'a Value, k: &str) -> Result<&'a str, String> {
    v.get(k).and_then(|x| x.as_str()).ok_or_else(|| format!("missing string field '{}'", k))
}
fn gi(v: &Value, k: &str) -> Result<i64, String> {
    v.get(k).and_then(|x| x.as_i64()).ok_or_else(|| format!("missing integer field '{}'", k))
}
fn goi(v: &Value, k: &str) -> Option<i64> {
    v.get(k).and_then(|x| x.as_i64())
}
fn ga<'a>(v: &'a Value, k: &str) -> Result<&'a Vec<Value>, String> {
    v.get(k).and_then(|x| x.as_array()).ok_or_else(|| format!("missing array field '{}'", k))
}

impl Spec {
    pub fn from_input(inp: &Value) -> Result<Spec, String> {
        let mut types = vec![];
        for t in ga(inp, "vehicleTypes")? {
            types.push(VType {
                id: gs(t, "id")?.to_string(),
                capacity: gi(t, "capacity")?,
                seats: gi(t, "seats")?,
                limit: goi(t, "maximalFormationCount"),
            });
        }
        let tidx = |id: &str| types.iter().position(|t| t.id == id).ok_or_else(|| format!("unknown type {}", id));
        let mut locs = vec![];
        for l in ga(inp, "locations")? {
            locs.push(gs(l, "id")?.to_string());
        }
        let lidx = |id: &str| locs.iter().position(|l| l == id).ok_or_else(|| format!("unknown location {}", id));

        let mut depots = vec![];
        let depots_given = inp.get("depots").map(|d| d.is_array()).unwrap_or(false);
        if depots_given {
            for d in ga(inp, "depots")? {
                let mut per_type = vec![None; types.len()];
                for at in ga(d, "allowedTypes")? {
                    per_type[tidx(gs(at, "vehicleType")?)?] = Some(goi(at, "capacity"));
                }
                depots.push(Depot {
                    id: gs(d, "id")?.to_string(),
                    loc: lidx(gs(d, "location")?)?,
                    total: Some(gi(d, "capacity")?),
                    per_type,
                });
            }
        } else {
            for (i, l) in locs.iter().enumerate() {
                depots.push(Depot {
                    id: format!("depot_{}", l),
                    loc: i,
                    total: None,
                    per_type: vec![Some(None); types.len()],
                });
            }
        }

        let routes = ga(inp, "routes")?;
        let mut acts = vec![];
        for dep in ga(inp, "departures")? {
            let rid = gs(dep, "route")?;
            let route = routes
                .iter()
                .find(|r| r.get("id").and_then(|x| x.as_str()) == Some(rid))
                .ok_or_else(|| format!("unknown route {}", rid))?;
            let vt = tidx(gs(route, "vehicleType")?)?;
            for ds in ga(dep, "segments")? {
                let rsid = gs(ds, "routeSegment")?;
                let rs = ga(route, "segments")?
                    .iter()
                    .find(|r| r.get("id").and_then(|x| x.as_str()) == Some(rsid))
                    .ok_or_else(|| format!("unknown route segment {}", rsid))?;
                let start = parse_time(gs(ds, "departure")?)?;
                acts.push(Act {
                    id: gs(ds, "id")?.to_string(),
                    kind: Kind::Seg {
                        vt,
                        pax: gi(ds, "passengers")?.max(1), // zero counted as one
                        seated: gi(ds, "seated")?,
                        seg_limit: goi(rs, "maximalFormationCount"),
                        dist: gi(rs, "distance")?,
                    },
                    origin: lidx(gs(rs, "origin")?)?,
                    dest: lidx(gs(rs, "destination")?)?,
                    start,
                    end: start + gi(rs, "duration")?,
                });
            }
        }
        let n_segs = acts.len();
        if let Some(ms) = inp.get("maintenanceSlots").and_then(|m| m.as_array()) {
            for m in ms {
                let l = lidx(gs(m, "location")?)?;
                acts.push(Act {
                    id: gs(m, "id")?.to_string(),
                    kind: Kind::Slot { tracks: gi(m, "trackCount")? },
                    origin: l,
                    dest: l,
                    start: parse_time(gs(m, "start")?)?,
                    end: parse_time(gs(m, "end")?)?,
                });
            }
        }

        let dh = inp.get("deadHeadTrips").ok_or("missing deadHeadTrips")?;
        let idx: Vec<usize> = ga(dh, "indices")?
            .iter()
            .map(|x| lidx(x.as_str().unwrap_or("")))
            .collect::<Result<_, _>>()?;
        let n = locs.len();
        let mut dh_time = vec![vec![0i64; n]; n];
        let mut dh_dist = vec![vec![0i64; n]; n];
        let dur = ga(dh, "durations")?;
        let dis = ga(dh, "distances")?;
        for (i, &a) in idx.iter().enumerate() {
            for (j, &b) in idx.iter().enumerate() {
                dh_time[a][b] = dur[i][j].as_i64().ok_or("bad duration")?;
                dh_dist[a][b] = dis[i][j].as_i64().ok_or("bad distance")?;
            }
        }
        let p = inp.get("parameters").ok_or("missing parameters")?;
        let sh = p.get("shunting").ok_or("missing shunting")?;
        let c = p.get("costs").ok_or("missing costs")?;
        Ok(Spec {
            types,
            locs,
            depots,
            depots_given,
            acts,
            n_segs,
            dh_time,
            dh_dist,
            shunt_min: gi(sh, "minimalDuration")?,
            shunt_dh: gi(sh, "deadHeadTripDuration")?,
            forbid: p.get("forbidDeadHeadTrips").and_then(|b| b.as_bool()).unwrap_or(false),
            max_dist: p.get("maintenance").and_then(|m| goi(m, "maximalDistance")).unwrap_or(0),
            cost_staff: gi(c, "staff")?,
            cost_service: gi(c, "serviceTrip")?,
            cost_maint: goi(c, "maintenance").unwrap_or(0),
            cost_dh: gi(c, "deadHeadTrip")?,
            cost_idle: gi(c, "idle")?,
        })
    }

    pub fn act_by_id(&self, id: &str) -> Option<usize> {
        self.acts.iter().position(|a| a.id == id)
    }
    pub fn depot_by_id(&self, id: &str) -> Option<usize> {
        self.depots.iter().position(|d| d.id == id)
    }
    pub fn type_by_id(&self, id: &str) -> Option<usize> {
        self.types.iter().position(|t| t.id == id)
    }
    pub fn loc_by_id(&self, id: &str) -> Option<usize> {
        self.locs.iter().position(|l| l == id)
    }

    /// the documented timing rule between two activities
    pub fn turnaround(&self, a: &Act, b: &Act) -> i64 {
        if a.dest == b.origin {
            self.shunt_min
        } else {
            self.dh_time[a.dest][b.origin] + 2 * self.shunt_dh
        }
    }

    pub fn reach(&self, ai: usize, bi: usize) -> bool {
        let (a, b) = (&self.acts[ai], &self.acts[bi]);
        if self.forbid && a.dest != b.origin {
            return false;
        }
        a.end + self.turnaround(a, b) <= b.start
    }

    /// vehicles needed on a segment by a fleet of its route's type
    pub fn required(&self, ai: usize) -> i64 {
        match self.acts[ai].kind {
            Kind::Seg { vt, pax, seated, .. } => {
                let t = &self.types[vt];
                let ceil = |a: i64, b: i64| (a + b - 1) / b;
                ceil(pax, t.capacity).max(ceil(seated, t.seats))
            }
            _ => 0,
        }
    }

    /// smaller of type limit and route-segment limit, None only if neither is given
    pub fn limit(&self, ai: usize) -> Option<i64> {
        match self.acts[ai].kind {
            Kind::Seg { vt, seg_limit, .. } => match (self.types[vt].limit, seg_limit) {
                (None, None) => None,
                (Some(a), None) => Some(a),
                (None, Some(b)) => Some(b),
                (Some(a), Some(b)) => Some(a.min(b)),
            },
            Kind::Slot { tracks } => Some(tracks),
        }
    }

    /// number of vehicles that must cover a segment: min(required, limit)
    pub fn cover_lb(&self, ai: usize) -> i64 {
        let r = self.required(ai);
        match self.limit(ai) {
            Some(l) => r.min(l),
            None => r,
        }
    }

    /// unserved passengers (capacity shortfall + seat shortfall) when `k` vehicles of the segment's type serve it
    pub fn shortfall(&self, ai: usize, k: i64) -> i64 {
        match self.acts[ai].kind {
            Kind::Seg { vt, pax, seated, .. } => {
                let t = &self.types[vt];
                (pax - k * t.capacity).max(0) + (seated - k * t.seats).max(0)
            }
            _ => 0,
        }
    }

    /// lower bound on unserved passengers of any schedule
    pub fn unserved_lower_bound(&self) -> i64 {
        (0..self.n_segs)
            .map(|i| match self.limit(i) {
                Some(l) => self.shortfall(i, self.required(i).min(l)),
                None => 0,
            })
            .sum()
    }

    pub fn has_tie(&self) -> bool {
        for a in &self.acts {
            for b in &self.acts {
                if a.end == b.start {
                    return true;
                }
            }
        }
        false
    }

    /// multiple of days covering all activities (used by the code as the stand-in duration for legs
    /// touching the overflow depot; mirrored only where stated)
    pub fn planning_seconds(&self) -> i64 {
        let lo = self.acts.iter().map(|a| a.start).min().unwrap_or(0);
        let hi = self.acts.iter().map(|a| a.end).max().unwrap_or(0);
        ((hi - lo) + 86399) / 86400 * 86400
    }
}

// ---------------------------------------------------------------------------------------------
// Output side
// ---------------------------------------------------------------------------------------------

#[derive(Clone, Debug)]
pub struct OutDh {
    pub origin: String,
    pub dest: String,
    pub dep: String,
    pub arr: String,
}

#[derive(Clone, Debug)]
pub struct OutVehicle {
    pub id: String,
    pub vt: usize,
    pub start_depot: String,
    pub end_depot: String,
    /// activities in the order "merged by start time" (ties: segments before slots, then listing order)
    pub acts: Vec<usize>,
    pub dead_heads: Vec<OutDh>,
}

#[derive(Clone, Debug, Default)]
pub struct Out {
    pub vehicles: Vec<OutVehicle>,
    /// per type (index into spec.types): cycles as vehicle ids
    pub cycles: BTreeMap<usize, Vec<Vec<String>>>,
    /// trip view: activity index -> formation (vehicle ids), plus raw listing for completeness checks
    pub seg_list: Vec<(String, Value)>,
    pub slot_list: Vec<(String, Value)>,
    pub depot_loads: Vec<(String, Vec<(String, i64)>)>,
    pub objective: BTreeMap<String, i64>,
    pub fleet_types: Vec<String>,
}

pub const EARLIEST: i64 = i64::MIN / 4;
pub const LATEST: i64 = i64::MAX / 4;

pub fn parse_out_time(s: &str) -> Result<i64, String> {
    match s {
        "EARLIEST" => Ok(EARLIEST),
        "LATEST" => Ok(LATEST),
        _ => parse_time(s),
    }
}

impl Out {
    pub fn parse(spec: &Spec, out: &Value) -> Result<Out, String> {
        let mut o = Out::default();
        let obj = out.get("objectiveValue").ok_or("missing objectiveValue")?;
        for k in ["unservedPassengers", "maintenanceViolation", "vehicleCount", "costs"] {
            o.objective.insert(k.to_string(), gi(obj, k)?);
        }
        let sched = out.get("schedule").ok_or("missing schedule")?;
        for fl in ga(sched, "fleet")? {
            let tid = gs(fl, "vehicleType")?;
            o.fleet_types.push(tid.to_string());
            let vt = spec.type_by_id(tid).ok_or_else(|| format!("fleet of unknown type {}", tid))?;
            for v in ga(fl, "vehicles")? {
                let mut acts: Vec<(i64, usize, usize)> = vec![];
                for (k, ds) in ga(v, "departureSegments")?.iter().enumerate() {
                    let id = gs(ds, "departureSegment")?;
                    let ai = spec.act_by_id(id).filter(|&i| spec.acts[i].is_seg()).ok_or_else(|| format!("vehicle serves unknown segment {}", id))?;
                    acts.push((spec.acts[ai].start, k, ai));
                }
                let nseg = acts.len();
                if let Some(ms) = v.get("maintenanceSlots").and_then(|m| m.as_array()) {
                    for (k, m) in ms.iter().enumerate() {
                        let id = gs(m, "maintenanceSlot")?;
                        let ai = spec.act_by_id(id).filter(|&i| spec.acts[i].is_slot()).ok_or_else(|| format!("vehicle visits unknown slot {}", id))?;
                        acts.push((spec.acts[ai].start, nseg + k, ai));
                    }
                }
                // merge by start time; ties are resolved in favour of a connectable order if one exists
                acts.sort();
                let mut order: Vec<usize> = acts.iter().map(|x| x.2).collect();
                for i in 0..order.len().saturating_sub(1) {
                    let (a, b) = (order[i], order[i + 1]);
                    if spec.acts[a].start == spec.acts[b].start && !spec.reach(a, b) && spec.reach(b, a) {
                        order.swap(i, i + 1);
                    }
                }
                let mut dead_heads = vec![];
                for d in ga(v, "deadHeadTrips")? {
                    dead_heads.push(OutDh {
                        origin: gs(d, "origin")?.to_string(),
                        dest: gs(d, "destination")?.to_string(),
                        dep: gs(d, "departure")?.to_string(),
                        arr: gs(d, "arrival")?.to_string(),
                    });
                }
                o.vehicles.push(OutVehicle {
                    id: gs(v, "id")?.to_string(),
                    vt,
                    start_depot: gs(v, "startDepot")?.to_string(),
                    end_depot: gs(v, "endDepot")?.to_string(),
                    acts: order,
                    dead_heads,
                });
            }
            let mut cycles = vec![];
            if let Some(cs) = fl.get("vehicleCycles").and_then(|c| c.as_array()) {
                for c in cs {
                    cycles.push(c.as_array().ok_or("cycle is not a list")?.iter().map(|x| x.as_str().unwrap_or("?").to_string()).collect());
                }
            }
            o.cycles.insert(vt, cycles);
        }
        for ds in ga(sched, "departureSegments")? {
            o.seg_list.push((gs(ds, "departureSegment")?.to_string(), ds.clone()));
        }
        if let Some(ms) = sched.get("maintenanceSlots").and_then(|m| m.as_array()) {
            for m in ms {
                o.slot_list.push((gs(m, "maintenanceSlot")?.to_string(), m.clone()));
            }
        }
        for dl in ga(sched, "depotLoads")? {
            let mut loads = vec![];
            for l in ga(dl, "load")? {
                loads.push((gs(l, "vehicleType")?.to_string(), gi(l, "spawnCount")?));
            }
            o.depot_loads.push((gs(dl, "depot")?.to_string(), loads));
        }
        Ok(o)
    }

    pub fn vehicle(&self, id: &str) -> Option<&OutVehicle> {
        self.vehicles.iter().find(|v| v.id == id)
    }

    /// formation listed for an activity in the trip view
    pub fn formation_of(&self, spec: &Spec, ai: usize) -> Option<Vec<String>> {
        let id = &spec.acts[ai].id;
        let list = if spec.acts[ai].is_seg() { &self.seg_list } else { &self.slot_list };
        list.iter().find(|(i, _)| i == id).and_then(|(_, v)| v.get("formation")).and_then(|f| f.as_array()).map(|f| f.iter().map(|x| x.as_str().unwrap_or("?").to_string()).collect())
    }

    pub fn uses_overflow(&self) -> bool {
        self.vehicles.iter().any(|v| v.start_depot == OVERFLOW_DEPOT_ID || v.end_depot == OVERFLOW_DEPOT_ID)
    }
}

/// location of a depot named in the output: Some(loc) for a real depot, None for the overflow depot
pub fn depot_loc(spec: &Spec, id: &str) -> Result<Option<usize>, String> {
    if id == OVERFLOW_DEPOT_ID {
        return Ok(None);
    }
    spec.depot_by_id(id).map(|d| Some(spec.depots[d].loc)).ok_or_else(|| format!("'{}' is not a depot of the instance", id))
}

// ---------------------------------------------------------------------------------------------
// Objective evaluator (C04)
// ---------------------------------------------------------------------------------------------

#[derive(Debug, Clone, Default)]
pub struct Eval {
    pub unserved: i64,
    pub vehicles: i64,
    /// exact when `finite`
    pub costs: i64,
    pub violation: i64,
    /// false if some itinerary or transfer touches the overflow depot (then `costs` and `violation`
    /// only contain the finite parts and are lower bounds)
    pub finite: bool,
}

pub fn evaluate(spec: &Spec, out: &Out) -> Result<Eval, String> {
    let mut e = Eval { finite: true, ..Default::default() };
    e.vehicles = out.vehicles.len() as i64;
    // unserved from the trip view
    for ai in 0..spec.n_segs {
        let f = out.formation_of(spec, ai).ok_or_else(|| format!("segment {} not listed", spec.acts[ai].id))?;
        let (mut cap, mut seats) = (0, 0);
        for vid in &f {
            let v = out.vehicle(vid).ok_or_else(|| format!("formation names unknown vehicle {}", vid))?;
            cap += spec.types[v.vt].capacity;
            seats += spec.types[v.vt].seats;
        }
        if let Kind::Seg { pax, seated, .. } = spec.acts[ai].kind {
            e.unserved += (pax - cap).max(0) + (seated - seats).max(0);
        }
    }
    // costs and per-vehicle distance
    let mut counter_of: BTreeMap<String, (i64, bool)> = BTreeMap::new(); // vehicle -> (distance - allowance, finite)
    e.costs = spec.cost_staff * spec.n_segs as i64;
    for v in &out.vehicles {
        let sl = depot_loc(spec, &v.start_depot)?;
        let el = depot_loc(spec, &v.end_depot)?;
        let mut dist = 0i64;
        let mut fin = true;
        let mut visits = false;
        for (k, &ai) in v.acts.iter().enumerate() {
            let a = &spec.acts[ai];
            match a.kind {
                Kind::Seg { dist: d, .. } => {
                    e.costs += (a.end - a.start) * spec.cost_service;
                    dist += d;
                }
                Kind::Slot { .. } => {
                    e.costs += (a.end - a.start) * spec.cost_maint;
                    visits = true;
                }
            }
            if k + 1 < v.acts.len() {
                let b = &spec.acts[v.acts[k + 1]];
                let t = spec.dh_time[a.dest][b.origin];
                e.costs += t * spec.cost_dh + (b.start - a.end - t).max(0) * spec.cost_idle;
                dist += spec.dh_dist[a.dest][b.origin];
            }
        }
        if let (Some(&first), Some(&last)) = (v.acts.first(), v.acts.last()) {
            match sl {
                Some(l) => {
                    e.costs += spec.dh_time[l][spec.acts[first].origin] * spec.cost_dh;
                    dist += spec.dh_dist[l][spec.acts[first].origin];
                }
                None => fin = false,
            }
            match el {
                Some(l) => {
                    e.costs += spec.dh_time[spec.acts[last].dest][l] * spec.cost_dh;
                    dist += spec.dh_dist[spec.acts[last].dest][l];
                }
                None => fin = false,
            }
        }
        if !fin {
            e.finite = false;
        }
        counter_of.insert(v.id.clone(), (dist - if visits { spec.max_dist } else { 0 }, fin));
    }
    // maintenance violation per cycle
    for (_, cycles) in out.cycles.iter() {
        for c in cycles {
            if c.is_empty() {
                continue;
            }
            let mut counter = 0i64;
            let mut fin = true;
            for (i, vid) in c.iter().enumerate() {
                let (cnt, f) = counter_of.get(vid).ok_or_else(|| format!("cycle names unknown vehicle {}", vid))?;
                counter += cnt;
                fin &= f;
                let v = out.vehicle(vid).unwrap();
                let nxt = out.vehicle(&c[(i + 1) % c.len()]).ok_or_else(|| format!("cycle names unknown vehicle {}", c[(i + 1) % c.len()]))?;
                match (depot_loc(spec, &v.end_depot)?, depot_loc(spec, &nxt.start_depot)?) {
                    (Some(a), Some(b)) => counter += spec.dh_dist[a][b],
                    _ => fin = false,
                }
            }
            if fin {
                e.violation += counter.max(0);
            } else {
                e.finite = false;
            }
        }
    }
    Ok(e)
}
