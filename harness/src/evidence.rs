//! Evidence files, known findings, VIOLATION lines and exit codes.
use serde_json::{json, Map, Value};
use std::path::PathBuf;
use std::time::Instant;

pub const VERIF: &str = "/verif";

static SAVED_STDOUT: std::sync::atomic::AtomicI32 = std::sync::atomic::AtomicI32::new(-1);

/// The subject prints a lot. Keep the real stdout for the harness' own lines (`say`) and send
/// everything else written to fd 1 to /dev/null.
pub fn init_stdout() {
    unsafe {
        let saved = libc::dup(1);
        let devnull = libc::open(b"/dev/null\0".as_ptr() as *const libc::c_char, libc::O_WRONLY);
        libc::dup2(devnull, 1);
        libc::close(devnull);
        SAVED_STDOUT.store(saved, std::sync::atomic::Ordering::SeqCst);
    }
}

pub fn say(line: &str) {
    let fd = SAVED_STDOUT.load(std::sync::atomic::Ordering::SeqCst);
    if fd < 0 {
        println!("{}", line);
        return;
    }
    let mut buf = line.as_bytes().to_vec();
    buf.push(b'\n');
    let mut off = 0;
    while off < buf.len() {
        let n = unsafe { libc::write(fd, buf[off..].as_ptr() as *const libc::c_void, buf.len() - off) };
        if n <= 0 {
            break;
        }
        off += n as usize;
    }
}

#[macro_export]
macro_rules! say {
    ($($arg:tt)*) => { $crate::evidence::say(&format!($($arg)*)) };
}

#[derive(Clone, Debug)]
pub struct Violation {
    /// identifies *this* failure: panic call site, or digest of the failing input / history
    pub signature: String,
    /// one-line human description
    pub what: String,
    /// everything needed to replay
    pub replay: Value,
}

pub struct Report {
    pub prop: String,
    pub tier: String,
    pub seed: i64,
    pub level: String,
    pub coverage: Map<String, Value>,
    pub assumptions: Vec<String>,
    pub violations: Vec<Violation>,
    pub violation_total: usize,
    pub start: Instant,
}

pub fn verif_seed() -> i64 {
    std::env::var("VERIF_SEED").ok().and_then(|s| s.parse().ok()).unwrap_or(0)
}

impl Report {
    pub fn new(prop: &str, tier: &str, level: &str) -> Report {
        Report {
            prop: prop.to_string(),
            tier: tier.to_string(),
            seed: verif_seed(),
            level: level.to_string(),
            coverage: Map::new(),
            assumptions: vec![],
            violations: vec![],
            violation_total: 0,
            start: Instant::now(),
        }
    }

    pub fn cov(&mut self, k: &str, v: Value) {
        self.coverage.insert(k.to_string(), v);
    }

    pub fn assume(&mut self, s: &str) {
        self.assumptions.push(s.to_string());
    }

    /// record a violation; only the first few distinct signatures are kept in full
    pub fn violation(&mut self, v: Violation) {
        self.violation_total += 1;
        if self.violations.iter().any(|x| x.signature == v.signature) {
            return;
        }
        if self.violations.len() < 25 {
            self.violations.push(v);
        }
    }

    /// Write the evidence file, print KNOWN-FINDING / VIOLATION lines, return the exit code.
    pub fn finish(mut self) -> i32 {
        let known = load_known_findings();
        let mut new_violations = 0;
        let mut known_hits = 0;
        let replay_dir = PathBuf::from(VERIF).join("replays");
        let _ = std::fs::create_dir_all(&replay_dir);
        let mut lines = vec![];
        for (i, v) in self.violations.iter().enumerate() {
            let is_known = known.iter().any(|k| k.property == self.prop && k.status == "finding" && k.signature == v.signature);
            if is_known {
                known_hits += 1;
                lines.push(format!("KNOWN-FINDING: property={} {} [{}]", self.prop, v.what, v.signature));
            } else {
                new_violations += 1;
                let path = replay_dir.join(format!("{}-{}-{}.json", self.prop, self.tier, i));
                let mut r = v.replay.clone();
                r["property"] = json!(self.prop);
                r["signature"] = json!(v.signature);
                r["what"] = json!(v.what);
                let _ = std::fs::write(&path, serde_json::to_string_pretty(&r).unwrap());
                lines.push(format!("VIOLATION property={} replay={}", self.prop, path.display()));
                lines.push(format!("  what: {}", v.what));
                lines.push(format!("  signature: {}", v.signature));
            }
        }
        let wall = self.start.elapsed().as_secs_f64();
        self.coverage.insert("violations_total_incl_repeats".into(), json!(self.violation_total));
        self.coverage.insert("known_findings_seen".into(), json!(known_hits));
        let ev = json!({
            "property_id": self.prop,
            "tier": self.tier,
            "seed": self.seed,
            "level": self.level,
            "coverage": Value::Object(self.coverage.clone()),
            "assumptions": self.assumptions,
            "wall_s": wall,
            "violations": new_violations,
        });
        let dir = PathBuf::from(VERIF).join("evidence");
        let _ = std::fs::create_dir_all(&dir);
        let path = dir.join(format!("{}.json", self.prop));
        std::fs::write(&path, serde_json::to_string_pretty(&ev).unwrap()).expect("write evidence");
        for l in lines {
            say(&l);
        }
        crate::say!(
            "[{} {}] {} wall={:.1}s new_violations={} known_findings={} evidence={}",
            self.prop,
            self.tier,
            summary_line(&self.coverage),
            wall,
            new_violations,
            known_hits,
            path.display()
        );
        if new_violations > 0 {
            1
        } else {
            0
        }
    }
}

fn summary_line(c: &Map<String, Value>) -> String {
    let mut parts = vec![];
    for k in ["evaluations", "distinct_nontrivial", "states", "transitions", "exhaustive"] {
        if let Some(v) = c.get(k) {
            parts.push(format!("{}={}", k, v));
        }
    }
    parts.join(" ")
}

pub struct Known {
    pub property: String,
    pub status: String,
    pub signature: String,
}

pub fn load_known_findings() -> Vec<Known> {
    let path = PathBuf::from(VERIF).join("known_findings.json");
    let txt = match std::fs::read_to_string(path) {
        Ok(t) => t,
        Err(_) => return vec![],
    };
    let v: Value = match serde_json::from_str(&txt) {
        Ok(v) => v,
        Err(_) => return vec![],
    };
    let mut out = vec![];
    for e in v.get("findings").and_then(|f| f.as_array()).into_iter().flatten() {
        out.push(Known {
            property: e.get("property").and_then(|x| x.as_str()).unwrap_or("").to_string(),
            status: e.get("status").and_then(|x| x.as_str()).unwrap_or("").to_string(),
            signature: e.get("signature").and_then(|x| x.as_str()).unwrap_or("").to_string(),
        });
    }
    out
}

pub fn machinery_error(prop: &str, msg: &str) -> ! {
    eprintln!("MACHINERY-ERROR property={} {}", prop, msg);
    say(&format!("MACHINERY-ERROR property={} {}", prop, msg));
    std::process::exit(2);
}

/// strip the line number from "file:line" so that signatures survive unrelated edits
pub fn site_without_line(site: &str) -> String {
    match site.rsplit_once(':') {
        Some((f, _)) => f.to_string(),
        None => site.to_string(),
    }
}

/// short stable digest (FNV-1a 64) for signatures
pub fn digest(s: &str) -> String {
    let mut h: u64 = 0xcbf29ce484222325;
    for b in s.as_bytes() {
        h ^= *b as u64;
        h = h.wrapping_mul(0x100000001b3);
    }
    format!("{:016x}", h)
}
