//! Engine E: the real server binary on a loopback port (C18).
//! (i) all request-kind sequences up to a length, sequentially, with a health probe after each
//!     element; (ii) for every multiset of solve-type requests, all handler-level interleavings of
//!     their enter/exit events, forced through the H3 gates.
use crate::evidence::*;
use crate::grammar::Inst;
use crate::oracles;
use crate::spec::{Out, Spec};
use serde_json::{json, Value};
use std::io::{Read, Write};
use std::net::TcpStream;
use std::path::PathBuf;
use std::process::{Child, Command, Stdio};
use std::sync::atomic::{AtomicUsize, Ordering};
use std::time::{Duration, Instant};

pub const SERVER_BIN: &str = "/verif/target/repo/release/server";

#[derive(Clone, Copy, Debug, PartialEq, Eq, PartialOrd, Ord)]
pub enum Req {
    H,  // GET /health
    Vx, // valid solve, instance x
    Vy, // valid solve, instance y
    M,  // malformed JSON
    W,  // wrong content type
    S,  // well-formed but semantically invalid (dangling reference): the handler panics in the loader
    S2, // loads fine but makes the solver itself panic (absurd cost coefficient: overflow guard in the flow model)
    Vb, // valid solve, instance y written over a network of 460 further locations: a request body above 2 MiB
    S3, // loads and solves, but panics while the answer is written (all activities on 0000-01-01, the first pull-out would leave before year 0)
}

impl Req {
    fn name(&self) -> &'static str {
        match self {
            Req::H => "health",
            Req::Vx => "solve(x)",
            Req::Vy => "solve(y)",
            Req::M => "malformed-json",
            Req::W => "wrong-content-type",
            Req::S => "semantically-invalid",
            Req::S2 => "solver-panics",
            Req::Vb => "solve(big)",
            Req::S3 => "answer-panics",
        }
    }
    fn from_name(s: &str) -> Option<Req> {
        ALPHABET.into_iter().find(|r| r.name() == s)
    }
}

const ALPHABET: [Req; 9] = [Req::H, Req::Vx, Req::Vy, Req::M, Req::W, Req::S, Req::S2, Req::Vb, Req::S3];

/// prefix every identifier so that two instances share no id
fn prefix_ids(v: &Value, p: &str, key: Option<&str>) -> Value {
    match v {
        Value::String(s) => match key {
            Some("id") | Some("location") | Some("vehicleType") | Some("origin") | Some("destination") | Some("route") | Some("routeSegment") | Some("indices") => Value::String(format!("{}{}", p, s)),
            _ => v.clone(),
        },
        Value::Array(a) => Value::Array(a.iter().map(|x| prefix_ids(x, p, key)).collect()),
        Value::Object(o) => Value::Object(o.iter().map(|(k, x)| (k.clone(), prefix_ids(x, p, Some(k.as_str())))).collect()),
        _ => v.clone(),
    }
}

pub struct Bodies {
    pub x: Value,
    pub y: Value,
    pub s: Value,
    pub s2: Value,
    pub big: Value,
    pub s3: Value,
}

pub fn bodies() -> Bodies {
    // x: two types, slot, back-to-back tie, coupled vehicles; y: one type, scarce depot, dead-heads
    let x = prefix_ids(&Inst::from_code("3,0,0,0,0,2,1,0,0,0,0,0;0.0.0.2,0.1.1.1,1.0.3.1").unwrap().to_json(), "x_", None);
    let y = prefix_ids(&Inst::from_code("0,0,1,0,2,1,1,1,0,0,0,0;0.0.0.1,0.0.3.2,0.1.2.1").unwrap().to_json(), "y_", None);
    let mut s = x.clone();
    s["departures"][0]["route"] = json!("x_no_such_route");
    // every reference resolves, but a cost coefficient of 10^15 trips the flow model's overflow guard
    let mut s2 = y.clone();
    s2["parameters"]["costs"]["serviceTrip"] = json!(1_000_000_000_000_000u64);
    // instance y in a network with 460 further locations no trip touches: the dead-head matrices make the
    // body larger than 2 MiB (the default body limit of the web framework, which the server switches off)
    let mut big = y.clone();
    let extra = 460usize;
    let n0 = big["locations"].as_array().unwrap().len();
    for i in 0..extra {
        let id = format!("y_X{}", i);
        big["locations"].as_array_mut().unwrap().push(json!({"id": id}));
        big["deadHeadTrips"]["indices"].as_array_mut().unwrap().push(json!(id));
    }
    for key in ["durations", "distances"] {
        let fill = if key == "durations" { 3600 } else { 60000 };
        let m = big["deadHeadTrips"][key].as_array_mut().unwrap();
        for row in m.iter_mut() {
            row.as_array_mut().unwrap().extend((0..extra).map(|_| json!(fill)));
        }
        for i in 0..extra {
            m.push(json!((0..n0 + extra).map(|j| if j == n0 + i { 0 } else { fill }).collect::<Vec<_>>()));
        }
    }
    assert!(big.to_string().len() > 2 * 1024 * 1024 + 4096);
    // instance y moved to 0000-01-01 with its trip from L1 at 00:10: the vehicle's pull-out from the depot at L0
    // would depart in the year before 0, which the date arithmetic refuses while the answer is serialised -
    // a failure after loading, flow and local search
    let mut s3: Value = serde_json::from_str(&y.to_string().replace("2024-01-15T", "0000-01-01T").replace("2024-01-16T", "0000-01-02T")).unwrap();
    for dep in s3["departures"].as_array_mut().unwrap() {
        for seg in dep["segments"].as_array_mut().unwrap() {
            if seg["departure"] == json!("0000-01-01T09:10:00") {
                seg["departure"] = json!("0000-01-01T00:10:00");
            }
        }
    }
    if let Some(ms) = s3.get_mut("maintenanceSlots").and_then(|m| m.as_array_mut()) {
        ms.clear();
    }
    Bodies { x, y, s, s2, big, s3 }
}

pub struct Server {
    child: Child,
    pub port: u16,
    pub gate_dir: PathBuf,
}

static PORT_COUNTER: AtomicUsize = AtomicUsize::new(0);

impl Server {
    pub fn start() -> Result<Server, String> {
        for _ in 0..50 {
            let port = 20000 + ((std::process::id() as usize * 131 + PORT_COUNTER.fetch_add(1, Ordering::SeqCst) * 7) % 30000) as u16;
            // is the port free?
            if TcpStream::connect_timeout(&format!("127.0.0.1:{}", port).parse().unwrap(), Duration::from_millis(50)).is_ok() {
                continue;
            }
            let gate_dir = PathBuf::from("/verif/target/gates").join(format!("rsv-gates-{}-{}", std::process::id(), port));
            let _ = std::fs::remove_dir_all(&gate_dir);
            std::fs::create_dir_all(&gate_dir).map_err(|e| e.to_string())?;
            let mut cmd = Command::new(SERVER_BIN);
            cmd.arg(port.to_string())
                .env("RSSCHED_VERIF_GATE_DIR", &gate_dir)
                .env("RAYON_NUM_THREADS", "4")
                .stdin(Stdio::null())
                .stdout(Stdio::null())
                .stderr(Stdio::null());
            // the server must not outlive the check
            unsafe {
                use std::os::unix::process::CommandExt;
                cmd.pre_exec(|| {
                    libc::prctl(libc::PR_SET_PDEATHSIG, libc::SIGKILL);
                    Ok(())
                });
            }
            let child = cmd
                .spawn()
                .map_err(|e| format!("cannot start {}: {}", SERVER_BIN, e))?;
            let mut srv = Server { child, port, gate_dir };
            let t0 = Instant::now();
            while t0.elapsed() < Duration::from_secs(5) {
                if let Ok(Some(_)) = srv.child.try_wait() {
                    break; // died (port taken?)
                }
                if let Ok(r) = request(port, "GET", "/health", None, None, Duration::from_millis(300)) {
                    if r.status == 200 {
                        return Ok(srv);
                    }
                }
                std::thread::sleep(Duration::from_millis(5));
            }
            srv.stop();
        }
        Err("server did not come up on any port".into())
    }

    pub fn alive(&mut self) -> bool {
        matches!(self.child.try_wait(), Ok(None))
    }

    pub fn stop(&mut self) {
        let _ = self.child.kill();
        let _ = self.child.wait();
        let _ = std::fs::remove_dir_all(&self.gate_dir);
    }
}

impl Drop for Server {
    fn drop(&mut self) {
        self.stop();
    }
}

#[derive(Debug, Clone)]
pub struct Resp {
    pub status: u16,
    pub body: String,
}

/// Err = connection failed or closed without a response
pub fn request(port: u16, method: &str, path: &str, content_type: Option<&str>, body: Option<&str>, timeout: Duration) -> Result<Resp, String> {
    let mut s = TcpStream::connect_timeout(&format!("127.0.0.1:{}", port).parse().unwrap(), Duration::from_secs(2)).map_err(|e| format!("connect: {}", e))?;
    s.set_read_timeout(Some(timeout)).ok();
    s.set_write_timeout(Some(Duration::from_secs(5))).ok();
    let mut req = format!("{} {} HTTP/1.1\r\nHost: localhost\r\nConnection: close\r\n", method, path);
    if let Some(ct) = content_type {
        req.push_str(&format!("Content-Type: {}\r\n", ct));
    }
    if let Some(b) = body {
        req.push_str(&format!("Content-Length: {}\r\n", b.len()));
    }
    req.push_str("\r\n");
    if let Some(b) = body {
        req.push_str(b);
    }
    s.write_all(req.as_bytes()).map_err(|e| format!("write: {}", e))?;
    let mut buf = vec![];
    let mut tmp = [0u8; 65536];
    loop {
        match s.read(&mut tmp) {
            Ok(0) => break,
            Ok(n) => buf.extend_from_slice(&tmp[..n]),
            Err(e) => {
                if buf.is_empty() {
                    return Err(format!("read: {}", e));
                }
                break;
            }
        }
    }
    if buf.is_empty() {
        return Err("connection closed without a response".into());
    }
    let txt = String::from_utf8_lossy(&buf).to_string();
    let (head, body) = txt.split_once("\r\n\r\n").ok_or("no header end")?;
    let status: u16 = head.split_whitespace().nth(1).and_then(|x| x.parse().ok()).ok_or("no status")?;
    let body = if head.to_ascii_lowercase().contains("transfer-encoding: chunked") {
        let mut out = String::new();
        let mut rest = body;
        loop {
            let Some((len, r)) = rest.split_once("\r\n") else { break };
            let n = usize::from_str_radix(len.trim(), 16).unwrap_or(0);
            if n == 0 || r.len() < n {
                break;
            }
            out.push_str(&r[..n]);
            rest = r[n..].trim_start_matches("\r\n");
        }
        out
    } else {
        body.to_string()
    };
    Ok(Resp { status, body })
}

/// check a solve answer against the oracles of *its own* instance
fn check_answer(input: &Value, resp: &Result<Resp, String>) -> Vec<String> {
    let mut v = vec![];
    let r = match resp {
        Ok(r) => r,
        Err(e) => return vec![format!("valid solve request got no response: {}", e)],
    };
    if r.status != 200 {
        return vec![format!("valid solve request answered with status {}", r.status)];
    }
    let out: Value = match serde_json::from_str(&r.body) {
        Ok(o) => o,
        Err(e) => return vec![format!("answer is not JSON: {}", e)],
    };
    let spec = Spec::from_input(input).expect("spec of own body");
    match Out::parse(&spec, &out) {
        Err(e) => v.push(format!("answer does not belong to the request's instance: {}", e)),
        Ok(o) => {
            for (name, verdict) in [("C01", oracles::c01(&spec, &o)), ("C02", oracles::c02(&spec, &o)), ("C03", oracles::c03(&spec, &o, &out)), ("C04", oracles::c04(&spec, &o)), ("C05", oracles::c05(&spec, &o))] {
                for (c, d) in verdict.violations {
                    v.push(format!("answer fails {} ({}): {}", name, c, d));
                }
            }
        }
    }
    v
}

fn health_ok(port: u16) -> Result<(), String> {
    match request(port, "GET", "/health", None, None, Duration::from_secs(5)) {
        Ok(r) if r.status == 200 && r.body.trim() == "Healthy" => Ok(()),
        Ok(r) => Err(format!("health answered {} '{}'", r.status, r.body.chars().take(40).collect::<String>())),
        Err(e) => Err(format!("health got no response: {}", e)),
    }
}

fn send(port: u16, b: &Bodies, r: Req, gate: Option<&str>) -> (Result<Resp, String>, Option<Value>) {
    let with_gate = |v: &Value| -> Value {
        let mut v = v.clone();
        if let Some(g) = gate {
            v["verifGate"] = json!(g);
        }
        v
    };
    let t = Duration::from_secs(30);
    match r {
        Req::H => (request(port, "GET", "/health", None, None, t), None),
        Req::Vx => {
            let body = with_gate(&b.x);
            (request(port, "POST", "/solve", Some("application/json"), Some(&body.to_string()), t), Some(b.x.clone()))
        }
        Req::Vy => {
            let body = with_gate(&b.y);
            (request(port, "POST", "/solve", Some("application/json"), Some(&body.to_string()), t), Some(b.y.clone()))
        }
        Req::Vb => {
            let body = with_gate(&b.big);
            (request(port, "POST", "/solve", Some("application/json"), Some(&body.to_string()), t), Some(b.big.clone()))
        }
        Req::M => (request(port, "POST", "/solve", Some("application/json"), Some("{\"vehicleTypes\": ["), t), None),
        Req::W => (request(port, "POST", "/solve", Some("text/plain"), Some(&b.x.to_string()), t), None),
        Req::S => {
            let body = with_gate(&b.s);
            (request(port, "POST", "/solve", Some("application/json"), Some(&body.to_string()), t), None)
        }
        Req::S2 => {
            let body = with_gate(&b.s2);
            (request(port, "POST", "/solve", Some("application/json"), Some(&body.to_string()), t), None)
        }
        Req::S3 => {
            let body = with_gate(&b.s3);
            (request(port, "POST", "/solve", Some("application/json"), Some(&body.to_string()), t), None)
        }
    }
}

/// verdict on one response
fn judge(r: Req, resp: &Result<Resp, String>, input: &Option<Value>) -> Vec<String> {
    match r {
        Req::H => match resp {
            Ok(x) if x.status == 200 && x.body.trim() == "Healthy" => vec![],
            other => vec![format!("health request answered {:?}", other.as_ref().map(|x| (x.status, x.body.chars().take(40).collect::<String>())))],
        },
        Req::Vx | Req::Vy | Req::Vb => check_answer(input.as_ref().unwrap(), resp),
        Req::M | Req::W => match resp {
            Ok(x) if (400..500).contains(&x.status) => vec![],
            other => vec![format!("{} request must get a 4xx answer, got {:?}", r.name(), other.as_ref().map(|x| x.status))],
        },
        Req::S | Req::S2 | Req::S3 => match resp {
            Ok(x) if x.status >= 400 => vec![],
            Err(_) => vec![], // closed connection
            Ok(x) => vec![format!("{} request answered with status {}", r.name(), x.status)],
        },
    }
}

fn all_sequences(len: usize) -> Vec<Vec<Req>> {
    let mut out: Vec<Vec<Req>> = vec![];
    let mut level: Vec<Vec<Req>> = vec![vec![]];
    for _ in 0..len {
        let mut next = vec![];
        for s in &level {
            for r in ALPHABET {
                let mut t = s.clone();
                t.push(r);
                next.push(t);
            }
        }
        out.extend(next.iter().cloned());
        level = next;
    }
    out
}

/// one fault sequence on a fresh server
fn run_sequence(b: &Bodies, seq: &[Req]) -> Result<Vec<String>, String> {
    let mut srv = Server::start()?;
    let mut v = vec![];
    for (i, r) in seq.iter().enumerate() {
        let (resp, input) = send(srv.port, b, *r, None);
        for m in judge(*r, &resp, &input) {
            v.push(format!("request {} ({}): {}", i + 1, r.name(), m));
        }
        if let Err(e) = health_ok(srv.port) {
            v.push(format!("after request {} ({}): {}", i + 1, r.name(), e));
        }
        if !srv.alive() {
            v.push(format!("server process died after request {} ({})", i + 1, r.name()));
            break;
        }
    }
    Ok(v)
}

#[derive(Clone, Debug, PartialEq, Eq)]
pub enum Ev {
    Enter(usize),
    Exit(usize),
}

/// all orders of enter_i / exit_i consistent with program order; a panicking request has no exit
fn interleavings(reqs: &[Req]) -> Vec<Vec<Ev>> {
    let per: Vec<Vec<Ev>> = reqs.iter().enumerate().map(|(i, r)| if matches!(r, Req::S | Req::S2 | Req::S3) { vec![Ev::Enter(i)] } else { vec![Ev::Enter(i), Ev::Exit(i)] }).collect();
    let mut out = vec![];
    fn rec(per: &Vec<Vec<Ev>>, pos: &mut Vec<usize>, cur: &mut Vec<Ev>, out: &mut Vec<Vec<Ev>>) {
        if pos.iter().zip(per.iter()).all(|(p, v)| *p == v.len()) {
            out.push(cur.clone());
            return;
        }
        for i in 0..per.len() {
            if pos[i] < per[i].len() {
                cur.push(per[i][pos[i]].clone());
                pos[i] += 1;
                rec(per, pos, cur, out);
                pos[i] -= 1;
                cur.pop();
            }
        }
    }
    rec(&per, &mut vec![0; per.len()], &mut vec![], &mut out);
    out
}

fn wait_for(path: &std::path::Path, timeout: Duration) -> bool {
    let t0 = Instant::now();
    while t0.elapsed() < timeout {
        if path.exists() {
            return true;
        }
        std::thread::sleep(Duration::from_millis(1));
    }
    false
}

/// one forced interleaving on a fresh server
fn run_interleaving(b: &Bodies, reqs: &[Req], order: &[Ev]) -> Result<Vec<String>, String> {
    let mut srv = Server::start()?;
    let port = srv.port;
    let dir = srv.gate_dir.clone();
    let mut v = vec![];
    let results: Vec<(Result<Resp, String>, Option<Value>)> = std::thread::scope(|sc| {
        let handles: Vec<_> = reqs
            .iter()
            .enumerate()
            .map(|(i, r)| {
                let gate = format!("r{}", i);
                let r = *r;
                sc.spawn(move || send(port, b, r, Some(&gate)))
            })
            .collect();
        for (k, ev) in order.iter().enumerate() {
            let (i, point) = match ev {
                Ev::Enter(i) => (*i, "enter"),
                Ev::Exit(i) => (*i, "exit"),
            };
            let f = dir.join(format!("r{}.{}", i, point));
            if !wait_for(&f, Duration::from_secs(20)) {
                v.push(format!("event {} ({} of request {} {}) was never reached", k + 1, point, i + 1, reqs[i].name()));
                // release everything so that the clients return
                for j in 0..reqs.len() {
                    for p in ["enter", "exit"] {
                        let _ = std::fs::write(dir.join(format!("r{}.{}.go", j, p)), b"");
                    }
                }
                break;
            }
            // the server must answer health while requests are parked at their gates
            if let Err(e) = health_ok(port) {
                v.push(format!("before event {} ({} of request {}): {}", k + 1, point, i + 1, e));
            }
            // ... and reject requests that fail before the handler (they pass no gate, so they complete here)
            for r in [Req::M, Req::W] {
                let (resp, input) = send(port, b, r, None);
                for m in judge(r, &resp, &input) {
                    v.push(format!("{} sent before event {} ({} of request {}): {}", r.name(), k + 1, point, i + 1, m));
                }
            }
            let _ = std::fs::write(dir.join(format!("r{}.{}.go", i, point)), b"");
        }
        handles.into_iter().map(|h| h.join().expect("client thread")).collect()
    });
    for (i, (resp, input)) in results.iter().enumerate() {
        for m in judge(reqs[i], resp, input) {
            v.push(format!("request {} ({}): {}", i + 1, reqs[i].name(), m));
        }
    }
    if let Err(e) = health_ok(port) {
        v.push(format!("at the end: {}", e));
    }
    if !srv.alive() {
        v.push("server process died".into());
    }
    Ok(v)
}

fn multisets(n: usize) -> Vec<Vec<Req>> {
    let kinds = [Req::Vx, Req::Vy, Req::S, Req::S2, Req::S3];
    let mut out = vec![];
    fn rec(kinds: &[Req], from: usize, left: usize, cur: &mut Vec<Req>, out: &mut Vec<Vec<Req>>) {
        if left == 0 {
            out.push(cur.clone());
            return;
        }
        for i in from..kinds.len() {
            cur.push(kinds[i]);
            rec(kinds, i, left - 1, cur, out);
            cur.pop();
        }
    }
    rec(&kinds, 0, n, &mut vec![], &mut out);
    out
}

fn ev_json(order: &[Ev]) -> Vec<String> {
    order.iter().map(|e| match e { Ev::Enter(i) => format!("enter {}", i + 1), Ev::Exit(i) => format!("exit {}", i + 1) }).collect()
}

pub fn check(tier: &str) -> i32 {
    let mut report = Report::new("C18", tier, "fault_enumeration");
    if !std::path::Path::new(SERVER_BIN).exists() {
        machinery_error("C18", &format!("server binary missing: {}", SERVER_BIN));
    }
    let b = bodies();
    let (seq_len, conc) = if tier == "thorough" { (4, 3) } else { (3, 2) };
    let seqs = all_sequences(seq_len);
    let nthreads = 8;
    // (i) fault sequences
    let next = AtomicUsize::new(0);
    let found: std::sync::Mutex<Vec<(Value, String)>> = std::sync::Mutex::new(vec![]);
    let mach: std::sync::Mutex<Option<String>> = std::sync::Mutex::new(None);
    let distinct_outcomes: std::sync::Mutex<std::collections::BTreeSet<String>> = std::sync::Mutex::new(Default::default());
    std::thread::scope(|sc| {
        for _ in 0..nthreads {
            sc.spawn(|| loop {
                let i = next.fetch_add(1, Ordering::SeqCst);
                if i >= seqs.len() || mach.lock().unwrap().is_some() {
                    break;
                }
                match run_sequence(&b, &seqs[i]) {
                    Ok(v) => {
                        distinct_outcomes.lock().unwrap().insert(format!("{:?}:{}", seqs[i], v.len()));
                        for m in v {
                            found.lock().unwrap().push((json!({"kind": "sequence", "requests": seqs[i].iter().map(|r| r.name()).collect::<Vec<_>>()}), m));
                        }
                    }
                    Err(e) => *mach.lock().unwrap() = Some(e),
                }
            });
        }
    });
    // (ii) handler-level interleavings
    let mut cases: Vec<(Vec<Req>, Vec<Ev>)> = vec![];
    for n in 2..=conc {
        for ms in multisets(n) {
            for o in interleavings(&ms) {
                cases.push((ms.clone(), o));
            }
        }
    }
    let next2 = AtomicUsize::new(0);
    std::thread::scope(|sc| {
        for _ in 0..nthreads {
            sc.spawn(|| loop {
                let i = next2.fetch_add(1, Ordering::SeqCst);
                if i >= cases.len() || mach.lock().unwrap().is_some() {
                    break;
                }
                match run_interleaving(&b, &cases[i].0, &cases[i].1) {
                    Ok(v) => {
                        for m in v {
                            found.lock().unwrap().push((json!({"kind": "interleaving", "requests": cases[i].0.iter().map(|r| r.name()).collect::<Vec<_>>(), "order": ev_json(&cases[i].1)}), m));
                        }
                    }
                    Err(e) => *mach.lock().unwrap() = Some(e),
                }
            });
        }
    });
    if let Some(e) = mach.into_inner().unwrap() {
        machinery_error("C18", &e);
    }
    // free-running burst: sampling, labelled as such, contributes no exhaustiveness claim
    let mut burst_failures = 0;
    let mut burst_requests = 0;
    if let Ok(mut srv) = Server::start() {
        let port = srv.port;
        for _round in 0..3 {
            let res: Vec<Vec<String>> = std::thread::scope(|sc| {
                let hs: Vec<_> = (0..16).map(|k| { let r = ALPHABET[k % ALPHABET.len()]; let b = &b; sc.spawn(move || { let (resp, input) = send(port, b, r, None); judge(r, &resp, &input) }) }).collect();
                hs.into_iter().map(|h| h.join().unwrap()).collect()
            });
            burst_requests += 16;
            for v in res {
                for m in v {
                    burst_failures += 1;
                    found.lock().unwrap().push((json!({"kind": "burst (sampled, free-running)"}), m));
                }
            }
        }
        if !srv.alive() {
            found.lock().unwrap().push((json!({"kind": "burst (sampled, free-running)"}), "server process died".into()));
        }
    }
    let found = found.into_inner().unwrap();
    let mut kept = 0;
    for (case, msg) in &found {
        if kept >= 10 {
            break;
        }
        kept += 1;
        // confirm once more on a fresh server
        let again = replay_case(&b, case);
        let sig = format!("{}:{}", digest(&case.to_string()), digest(msg));
        if case["kind"] != "burst (sampled, free-running)" {
            match again {
                Ok(v) if !v.is_empty() => {}
                Ok(_) => machinery_error("C18", &format!("violation did not reproduce on a fresh server: {} on {}", msg, case)),
                Err(e) => machinery_error("C18", &e),
            }
        }
        report.violation(Violation { signature: sig, what: format!("{} -- {}", msg, case), replay: json!({"engine": "http-mc", "case": case}) });
    }
    report.violation_total = found.len();
    let n_inter = cases.len();
    report.cov("evaluations", json!(seqs.len() + n_inter));
    report.cov("distinct_nontrivial", json!(seqs.iter().filter(|s| s.iter().any(|r| matches!(r, Req::M | Req::W | Req::S | Req::S2)) && s.iter().any(|r| matches!(r, Req::Vx | Req::Vy))).count() + cases.iter().filter(|(_, o)| o.windows(2).any(|w| matches!((&w[0], &w[1]), (Ev::Enter(a), Ev::Enter(b)) if a != b))).count()));
    report.cov("fault_sequences", json!(seqs.len()));
    report.cov("fault_sequence_max_length", json!(seq_len));
    report.cov("forced_interleavings", json!(n_inter));
    report.cov("concurrent_requests_max", json!(conc));
    report.cov("distinct_sequence_outcomes", json!(distinct_outcomes.into_inner().unwrap().len()));
    report.cov("sampled_burst_requests", json!(burst_requests));
    report.cov("sampled_burst_failures", json!(burst_failures));
    report.cov("rule", json!("Alphabet: health, solve(x), solve(y) (instances with disjoint ids, so an answer identifies its request), malformed JSON, wrong content type, semantically invalid body (dangling route reference => panic in the loader), a body that loads but makes the solver panic (cost coefficient 10^15 => overflow guard of the flow model), solve(big) (instance y over a network of 460 further locations: a body above 2 MiB), answer-panics (instance y moved to 0000-01-01 so that the first pull-out would leave before year 0: loads and solves, fails while the answer is written). (i) every sequence over the alphabet up to the stated length on a fresh real server, health probe after each element; (ii) for every multiset of solve-type requests {solve(x), solve(y), invalid, solver-panics, answer-panics} up to the stated size, every order of their enter/exit events consistent with program order (a panicking request has no exit), forced through the H3 gates; before each event a health probe, a malformed-JSON request and a wrong-content-type request are sent and judged (requests are parked inside the handler meanwhile). Each valid solve must get 200 and an answer passing the C01-C05 oracles for its own instance. Non-trivial = sequences mixing a faulty and a valid request + interleavings with two requests inside the handler at once."));
    report.cov("exhaustive", json!(true));
    report.cov("samples", json!([{"sequence": ["semantically-invalid", "solve(x)", "health"]}, {"requests": ["solve(x)", "solve(y)"], "order": ["enter 1", "enter 2", "exit 2", "exit 1"]}]));
    report.assume("interleavings are controlled at handler granularity only (tokio, hyper, rayon and the allocator are not instrumented; loom/shuttle cannot run the tokio I/O runtime); the free-running burst is sampling and carries no exhaustiveness claim");
    report.assume("one fresh server process per sequence / interleaving");
    report.finish()
}

fn replay_case(b: &Bodies, case: &Value) -> Result<Vec<String>, String> {
    let reqs: Vec<Req> = case["requests"].as_array().map(|a| a.iter().filter_map(|x| x.as_str().and_then(Req::from_name)).collect()).unwrap_or_default();
    match case["kind"].as_str() {
        Some("sequence") => run_sequence(b, &reqs),
        Some("interleaving") => {
            let order: Vec<Ev> = case["order"]
                .as_array()
                .map(|a| {
                    a.iter()
                        .filter_map(|x| {
                            let s = x.as_str()?;
                            let (k, i) = s.split_once(' ')?;
                            let i: usize = i.parse().ok()?;
                            Some(if k == "enter" { Ev::Enter(i - 1) } else { Ev::Exit(i - 1) })
                        })
                        .collect()
                })
                .unwrap_or_default();
            run_interleaving(b, &reqs, &order)
        }
        _ => Ok(vec![]),
    }
}

pub fn replay(path: &str) -> i32 {
    let txt = std::fs::read_to_string(path).unwrap_or_else(|e| machinery_error("C18", &format!("cannot read {}: {}", path, e)));
    let r: Value = serde_json::from_str(&txt).unwrap_or_else(|e| machinery_error("C18", &format!("bad replay file: {}", e)));
    match replay_case(&bodies(), &r["case"]) {
        Ok(v) if v.is_empty() => {
            crate::say!("replay passes");
            0
        }
        Ok(v) => {
            for m in v {
                crate::say!("  {}", m);
            }
            crate::say!("VIOLATION property=C18 replay={}", path);
            1
        }
        Err(e) => machinery_error("C18", &e),
    }
}
