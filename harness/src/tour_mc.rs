//! Engine C: tour edits vs the insert/remove reference semantics (C12).
//! All small networks of a sub-grid of the grammar x all valid tours (real and dummy) x all
//! insertable paths x all segments, through the real `Tour` API.
use crate::arena::Arena;
use crate::evidence::*;
use crate::grammar::*;
use crate::sched_oracles::ref_insert;
use model::base_types::NodeIdx;
use serde_json::{json, Value};
use solution::path::Path;
use solution::segment::Segment;
use solution::tour::Tour;
use solution::Schedule;
use std::collections::BTreeMap;
use std::sync::atomic::{AtomicUsize, Ordering};
use std::sync::Mutex;

#[derive(Default, Clone)]
struct Stats {
    networks: usize,
    tours: usize,
    dummy_tours: usize,
    inserts: usize,
    inserts_with_drop: usize,
    inserts_tie_kept: usize,
    removes_ok: usize,
    removes_refused: usize,
    sub_paths: usize,
    foreign_segments: usize,
}

#[derive(Clone)]
struct Found {
    code: String,
    clause: String,
    detail: String,
    case: Value,
}

fn networks(tier: &str) -> Vec<Inst> {
    let mut out = vec![];
    let mut push = |shunts: &[u8], forbids: &[u8], dhs: &[u8], maints: &[u8], twoseg: u8, sizes: std::ops::RangeInclusive<usize>| {
        for &shunt in shunts {
            for &forbid in forbids {
                for &dh in dhs {
                    for &maint in maints {
                        let mut cfg = BASE0;
                        cfg[D_SHUNT] = shunt;
                        cfg[D_FORBID] = forbid;
                        cfg[D_DH] = dh;
                        cfg[D_MAINT] = maint;
                        cfg[D_TWOSEG] = twoseg;
                        // demand is irrelevant for tours: one demand level
                        let cat: Vec<Trip> = catalogue(&cfg).into_iter().filter(|t| t.dem == 1).collect();
                        for trips in trip_multisets(&cat, *sizes.end()) {
                            if trips.len() >= *sizes.start() {
                                out.push(Inst { cfg, trips });
                            }
                        }
                    }
                }
            }
        }
    };
    if tier == "thorough" {
        push(&[0, 1, 3, 4], &[0, 1], &[0, 1, 2, 3, 4], &[0, 1, 4], 0, 1..=4);
        // two locations that are the same place (0 s, 0 m apart) with and without dead-head shunting
        push(&[0, 2, 3], &[0, 1], &[5], &[0, 1, 4], 0, 1..=4);
        // two-segment trips (two nodes per direction-0 trip, back to back)
        push(&[0, 1, 2], &[0, 1], &[0, 2, 5], &[0, 4], 1, 1..=3);
        // a five-minute slot reachable only by a quick dead-head detour while staying put needs 900 s
        push(&[4], &[0], &[4], &[8], 0, 1..=4);
    } else {
        push(&[0, 1, 3], &[0, 1], &[0, 1, 2, 3], &[0, 1, 4], 0, 1..=2);
        // three trips (three-node dummy tours, non-transitive chains) on a reduced configuration grid
        push(&[0, 3], &[0, 1], &[0, 2, 3], &[0, 4], 0, 3..=3);
        push(&[0, 2], &[0, 1], &[5], &[0, 4], 0, 1..=3);
        push(&[0, 1], &[0, 1], &[0, 5], &[0, 4], 1, 1..=2);
        push(&[4], &[0], &[4], &[8], 0, 1..=3);
    }
    out
}

fn names(a: &Arena, ns: &[NodeIdx]) -> Vec<String> {
    ns.iter().map(|n| a.nw.node(*n).id().to_string()).collect()
}

fn tour_nodes(t: &Tour) -> Vec<NodeIdx> {
    t.all_nodes_iter().collect()
}

/// all paths to insert: chains of <= 3 activities, +- leading start depot, +- trailing end depot
fn paths(a: &Arena, maxlen: usize) -> Vec<Vec<NodeIdx>> {
    let mut out = vec![];
    for c in a.chains(None, maxlen) {
        out.push(c.clone());
        for &sd in &a.start_depots {
            let mut p = vec![sd];
            p.extend(c.iter().copied());
            out.push(p.clone());
            for &ed in &a.end_depots {
                let mut q = p.clone();
                q.push(ed);
                out.push(q);
            }
        }
        for &ed in &a.end_depots {
            let mut p = c.clone();
            p.push(ed);
            out.push(p);
        }
    }
    out
}

fn check_network(inst: &Inst, maxlen: usize, st: &mut Stats, found: &mut Vec<Found>) {
    let code = inst.code();
    let a = Arena::load_no_inits("c12", &code);
    st.networks += 1;
    let vt = a.types[0];
    let empty = Schedule::empty(a.nw.clone());
    // tours: every chain x every depot pair (real), every service-only chain (dummy)
    let mut tours: Vec<(Tour, bool)> = vec![];
    for c in a.chains(Some(vt), maxlen) {
        for &sd in &a.start_depots {
            for &ed in &a.end_depots {
                let mut ns = vec![sd];
                ns.extend(c.iter().copied());
                ns.push(ed);
                if let Ok((s, v)) = empty.spawn_vehicle_for_path(vt, ns.clone()) {
                    let t = s.tour_of(v).unwrap().clone();
                    if tour_nodes(&t) == ns {
                        tours.push((t, false));
                    }
                }
            }
        }
        if c.iter().all(|n| a.is_service(*n)) {
            if let Ok((s, v)) = empty.spawn_vehicle_for_path(vt, c.clone()) {
                if let Ok(s2) = s.replace_vehicle_by_dummy(v) {
                    if let Some(d) = s2.dummy_iter().next() {
                        let t = s2.tour_of(d).unwrap().clone();
                        if tour_nodes(&t) == c {
                            tours.push((t, true));
                        }
                    }
                }
            }
        }
    }
    let all_paths = paths(&a, maxlen);
    let mut fail = |clause: &str, detail: String, case: Value, found: &mut Vec<Found>| {
        if found.len() < 200 {
            found.push(Found { code: code.clone(), clause: clause.to_string(), detail, case });
        }
    };
    for (t, is_dummy) in &tours {
        let tn = tour_nodes(t);
        if *is_dummy {
            st.dummy_tours += 1;
        } else {
            st.tours += 1;
        }
        // insertions
        for p in &all_paths {
            let path = match Path::new(p.clone(), a.nw.clone()) {
                Ok(Some(x)) => x,
                _ => continue,
            };
            // what the reference inserts: a dummy tour takes no depots
            let eff: Vec<NodeIdx> = if *is_dummy { p.iter().copied().filter(|n| !a.is_depot(*n)).collect() } else { p.clone() };
            let (exp, dropped) = ref_insert(&a, &tn, &eff);
            st.inserts += 1;
            if !dropped.is_empty() {
                st.inserts_with_drop += 1;
            }
            // back-to-back neighbour kept?
            if exp.windows(2).any(|w| {
                let (x, y) = (w[0], w[1]);
                (eff.contains(&x) != eff.contains(&y)) && a.act_idx(x).zip(a.act_idx(y)).map(|(i, j)| a.spec.acts[i].end == a.spec.acts[j].start).unwrap_or(false)
            }) {
                st.inserts_tie_kept += 1;
            }
            let case = json!({"edit": "insert_path", "tour": names(&a, &tn), "dummy": is_dummy, "path": names(&a, p)});
            let r = std::panic::catch_unwind(std::panic::AssertUnwindSafe(|| {
                let seg = Segment::new(eff[0], *eff.last().unwrap());
                let conflict = t.conflict(seg).map(|c| c.iter().collect::<Vec<_>>());
                let (nt, removed) = t.insert_path(path);
                (tour_nodes(&nt), removed.map(|r| r.iter().collect::<Vec<_>>()), conflict)
            }));
            match r {
                Err(_) => {
                    let (site, msg) = crate::pool::take_last_panic().unwrap_or(("?".into(), "?".into()));
                    fail(&format!("panic:{}", site_without_line(&site)), format!("insert_path panicked at {}: {}", site, msg), case, found);
                }
                Ok((got, removed, conflict)) => {
                    if got != exp {
                        fail("insert-result", format!("inserting {:?} into {:?} must give {:?}, got {:?}", names(&a, p), names(&a, &tn), names(&a, &exp), names(&a, &got)), case.clone(), found);
                    }
                    let exp_removed: Option<Vec<NodeIdx>> = if dropped.iter().all(|n| a.is_depot(*n)) { None } else { Some(dropped.clone()) };
                    if removed != exp_removed {
                        fail("dropped-not-reported", format!("inserting {:?} into {:?} drops {:?}, reported {:?}", names(&a, p), names(&a, &tn), names(&a, &dropped), removed.as_ref().map(|r| names(&a, r))), case.clone(), found);
                    }
                    if conflict != exp_removed {
                        fail("conflict", format!("conflict of {:?} with {:?} must be {:?}, got {:?}", names(&a, p), names(&a, &tn), names(&a, &dropped), conflict.as_ref().map(|r| names(&a, r))), case, found);
                    }
                }
            }
        }
        // segments of the tour
        for i in 0..tn.len() {
            for j in i..tn.len() {
                let slice = tn[i..=j].to_vec();
                if slice.iter().all(|n| a.is_depot(*n)) {
                    continue;
                }
                let seg = Segment::new(tn[i], tn[j]);
                let case = json!({"edit": "remove/sub_path", "tour": names(&a, &tn), "dummy": is_dummy, "segment": [names(&a, &[tn[i]])[0], names(&a, &[tn[j]])[0]]});
                let rest: Vec<NodeIdx> = tn.iter().copied().filter(|n| !slice.contains(n)).collect();
                let rest_has_activity = rest.iter().any(|n| !a.is_depot(*n));
                let slice_has_depot = slice.iter().any(|n| a.is_depot(*n));
                let strands_depot = slice_has_depot && rest_has_activity;
                let gap_bad = i > 0 && j + 1 < tn.len() && !a.reach(tn[i - 1], tn[j + 1]);
                let must_refuse = strands_depot || gap_bad;
                let r = std::panic::catch_unwind(std::panic::AssertUnwindSafe(|| {
                    let sub = t.sub_path(seg).map(|p| p.iter().collect::<Vec<_>>());
                    let removable = t.check_removable(seg).is_ok();
                    let rem = t.remove(seg).map(|(nt, p)| (nt.map(|x| tour_nodes(&x)), p.iter().collect::<Vec<_>>()));
                    (sub, removable, rem)
                }));
                st.sub_paths += 1;
                match r {
                    Err(_) => {
                        let (site, msg) = crate::pool::take_last_panic().unwrap_or(("?".into(), "?".into()));
                        fail(&format!("panic:{}", site_without_line(&site)), format!("segment edit panicked at {}: {}", site, msg), case, found);
                    }
                    Ok((sub, removable, rem)) => {
                        if sub.as_ref().ok() != Some(&slice) {
                            fail("sub-path", format!("sub_path of the existing segment {:?} of {:?} gave {:?}", names(&a, &slice), names(&a, &tn), sub.as_ref().map(|x| names(&a, x))), case.clone(), found);
                        }
                        match rem {
                            Ok((nt, removed)) => {
                                st.removes_ok += 1;
                                if must_refuse {
                                    fail("remove-not-refused", format!("removing {:?} from {:?} must be refused ({}), but succeeded", names(&a, &slice), names(&a, &tn), if strands_depot { "strands a depot" } else { "leaves an unconnectable gap" }), case.clone(), found);
                                } else {
                                    let exp_nt = if rest_has_activity { Some(rest.clone()) } else { None };
                                    if nt != exp_nt || removed != slice {
                                        fail("remove-result", format!("removing {:?} from {:?} must give {:?}, got {:?} (reported removed {:?})", names(&a, &slice), names(&a, &tn), exp_nt.as_ref().map(|x| names(&a, x)), nt.as_ref().map(|x| names(&a, x)), names(&a, &removed)), case.clone(), found);
                                    }
                                }
                                if !removable {
                                    fail("check-removable", format!("check_removable refuses {:?} of {:?} but remove accepts it", names(&a, &slice), names(&a, &tn)), case, found);
                                }
                            }
                            Err(e) => {
                                st.removes_refused += 1;
                                if !must_refuse {
                                    fail("remove-refused", format!("removing {:?} from {:?} is legal but was refused: {}", names(&a, &slice), names(&a, &tn), e), case.clone(), found);
                                }
                                if removable {
                                    fail("check-removable", format!("check_removable accepts {:?} of {:?} but remove refuses it", names(&a, &slice), names(&a, &tn)), case, found);
                                }
                            }
                        }
                    }
                }
            }
        }
        // a segment that is not part of the tour must be refused (checked once per tour)
        if let Some(&foreign) = a.acts.iter().find(|n| !tn.contains(n)) {
            st.foreign_segments += 1;
            let seg = Segment::new(foreign, foreign);
            let ok = std::panic::catch_unwind(std::panic::AssertUnwindSafe(|| t.remove(seg).is_err() && t.sub_path(seg).is_err())).unwrap_or(false);
            if !ok {
                let _ = crate::pool::take_last_panic();
                fail("foreign-segment", format!("segment [{}] is not part of {:?} but was not refused", names(&a, &[foreign])[0], names(&a, &tn)), json!({"edit": "foreign", "tour": names(&a, &tn), "dummy": is_dummy, "segment": names(&a, &[foreign])}), found);
            }
        }
    }
}

pub fn run(tier: &str, only_code: Option<&str>) -> (Vec<(String, String, String, Value)>, Value) {
    let maxlen = 3;
    let nets: Vec<Inst> = match only_code {
        Some(c) => vec![Inst::from_code(c).expect("code")],
        None => networks(tier),
    };
    let next = AtomicUsize::new(0);
    let agg: Mutex<(Stats, Vec<Found>)> = Mutex::new((Stats::default(), vec![]));
    let nthreads = std::thread::available_parallelism().map(|n| n.get()).unwrap_or(8);
    std::thread::scope(|sc| {
        for _ in 0..nthreads {
            sc.spawn(|| {
                crate::pool::install_panic_recorder_thread();
                let mut st = Stats::default();
                let mut found = vec![];
                loop {
                    let i = next.fetch_add(1, Ordering::SeqCst);
                    if i >= nets.len() {
                        break;
                    }
                    check_network(&nets[i], maxlen, &mut st, &mut found);
                }
                let mut g = agg.lock().unwrap();
                let t = &mut g.0;
                t.networks += st.networks;
                t.tours += st.tours;
                t.dummy_tours += st.dummy_tours;
                t.inserts += st.inserts;
                t.inserts_with_drop += st.inserts_with_drop;
                t.inserts_tie_kept += st.inserts_tie_kept;
                t.removes_ok += st.removes_ok;
                t.removes_refused += st.removes_refused;
                t.sub_paths += st.sub_paths;
                t.foreign_segments += st.foreign_segments;
                g.1.extend(found);
            });
        }
    });
    let (st, mut found) = agg.into_inner().unwrap();
    found.sort_by_key(|f| (f.code.len(), f.code.clone()));
    let cov = json!({
        "networks": st.networks, "real_tours": st.tours, "dummy_tours": st.dummy_tours, "insertions": st.inserts, "insertions_dropping_nodes": st.inserts_with_drop,
        "insertions_keeping_a_back_to_back_neighbour": st.inserts_tie_kept, "removals_accepted": st.removes_ok, "removals_refused": st.removes_refused,
        "segments_checked": st.sub_paths, "foreign_segments_checked": st.foreign_segments,
    });
    (found.into_iter().map(|f| (f.code, f.clause, f.detail, f.case)).collect(), cov)
}

pub fn check(tier: &str) -> i32 {
    let mut report = Report::new("C12", tier, "model_checking");
    let (found, cov) = run(tier, None);
    let mut by_clause: BTreeMap<String, usize> = BTreeMap::new();
    for f in &found {
        *by_clause.entry(f.1.clone()).or_insert(0) += 1;
    }
    let mut seen = std::collections::BTreeSet::new();
    let mut kept = 0;
    for (code, clause, detail, case) in &found {
        let first = seen.insert(clause.clone());
        if !first && kept >= 10 {
            continue;
        }
        kept += 1;
        let inst = Inst::from_code(code).unwrap();
        let replay = json!({"engine": "tour-mc", "code": code, "input": inst.to_json(), "case": case, "failing_clause": clause});
        let sig = if clause.starts_with("panic:") { clause.clone() } else { format!("{}:{}:{}", clause, code, digest(&case.to_string())) };
        report.violation(Violation { signature: sig, what: format!("{}: {} -- network {}", clause, detail, inst.describe()), replay });
    }
    report.violation_total = found.len();
    let g = |k: &str| cov[k].as_u64().unwrap_or(0);
    report.cov("states", json!(g("real_tours") + g("dummy_tours")));
    report.cov("transitions", json!(g("insertions") + g("segments_checked") + g("foreign_segments_checked")));
    report.cov("traces_validated_against_impl", json!(g("insertions") + g("segments_checked") + g("foreign_segments_checked")));
    report.cov("evaluations", json!(g("insertions") + g("segments_checked")));
    report.cov("distinct_nontrivial", json!(g("insertions_dropping_nodes") + g("removals_refused")));
    report.cov("detail", cov);
    report.cov("violations_by_clause", json!(by_clause));
    report.cov("rule", json!("Reference model = plain node lists + the documented reachability rule (spec). Enumerated: every network of the sub-grid (quick: shunting {(0,0), (300,0), (600,600)} x forbid x 4 dead-head matrices x {no slot, slot before the trips, slot tying with the trips} x all trip multisets of size <= 2, plus size-3 multisets on the reduced grid shunting {(0,0), (600,600)} x forbid x {symmetric, slow, non-metric} x {no slot, tying slot}; thorough: 4 shunting models x forbid x 5 matrices x 3 slot variants x multisets of size <= 4; trips over 2 directions x 4 departure slots), every valid real tour (chain of <=3 activities x every start/end depot pair, obtained through Schedule) and dummy tour, every path (chain of <=3, +-start depot, +-end depot) and every segment containing an activity. States = tours, transitions = edit calls compared with the reference. Non-trivial = insertions that drop nodes + removals that must be refused."));
    report.cov("exhaustive", json!(true));
    report.cov("samples", json!([{"network": "shunting (0,0), symmetric dead-heads, trips L0->L1 08:00 and L1->L0 09:00", "tour": ["s_depot_L0", "t0_s0", "e_depot_L1"], "path": ["t1_s0"], "expected": ["s_depot_L0", "t0_s0", "t1_s0", "e_depot_L1"]}]));
    report.assume("the statement's 'randomly beyond the bound' part is not performed (sampling is outside this family); the claim is the exhaustive part");
    report.assume("reachability of the reference comes from spec; its agreement with Network::can_reach is C17's claim");
    report.finish()
}

pub fn replay(path: &str) -> i32 {
    let txt = std::fs::read_to_string(path).unwrap_or_else(|e| machinery_error("C12", &format!("cannot read {}: {}", path, e)));
    let r: Value = serde_json::from_str(&txt).unwrap_or_else(|e| machinery_error("C12", &format!("bad replay file: {}", e)));
    let code = r["code"].as_str().unwrap_or("");
    let (found, _) = run("quick", Some(code));
    let want = &r["case"];
    let hits: Vec<_> = found.iter().filter(|f| &f.3 == want).collect();
    if hits.is_empty() {
        crate::say!("replay passes ({} other violations on this network)", found.len());
        0
    } else {
        for h in hits {
            crate::say!("  {}: {}", h.1, h.2);
        }
        crate::say!("VIOLATION property=C12 replay={}", path);
        1
    }
}
