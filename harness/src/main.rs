mod arena;
mod c14;
mod c17;
mod canon;
mod evidence;
mod grammar;
mod hashseed;
mod http_mc;
mod nbh_mc;
mod oracles;
mod pool;
mod sched_mc;
mod sched_ops;
mod sched_oracles;
mod spec;
mod stages;
mod sweep;
mod tour_mc;
mod trans_mc;

use serde_json::{json, Value};
use sweep::SweepSpec;

fn worker_handle(task: &Value) -> Value {
    match task.get("kind").and_then(|k| k.as_str()) {
        Some("solve") => sweep::worker_solve(task),
        Some("load") => sweep::worker_load(task),
        Some("flow") => sweep::worker_flow(task),
        other => json!({"status": "machinery", "msg": format!("unknown task kind {:?}", other)}),
    }
}

fn sweep_spec(prop: &str) -> Option<SweepSpec<'static>> {
    let base = |prop: &'static str, kind: &'static str, rule: &'static str| SweepSpec {
        prop,
        kind,
        only_maintenance: false,
        level: "exploration",
        rule,
        assumptions: vec![],
        failures_are_verdicts: false,
        exe: None,
        extra_label: "",
        max_seeds: None,
    };
    Some(match prop {
        "C01" => base("C01", "solve", "the answer contains a vehicle with at least two activities (a consecutive pair exists)."),
        "C02" => base("C02", "solve", "some limit is binding: a formation or slot filled to its limit, demand above the limit, a depot filled to a capacity, or a vehicle pushed to the overflow depot."),
        "C03" => base("C03", "solve", "the answer has a formation of two or more vehicles or a vehicle that changes location (a dead-head trip must be listed)."),
        "C04" => base("C04", "solve", "overflow-free answer with a multi-activity itinerary, positive maintenance violation or unserved passengers (all four components compared exactly)."),
        "C05" => base("C05", "solve", "a vehicle type with at least two vehicles and at least two distinct start depots."),
        "C07" => base("C07", "solve", "some segment needs two or more vehicles."),
        "C08" => {
            let mut s = base("C08", "solve", "the recorded trajectory has at least one accepted step.");
            s.only_maintenance = true;
            s
        }
        "C16" => base("C16", "solve", "the transition optimiser changed at least one rotation cycle (otherwise discarding its result is unobservable)."),
        "C14" => base("C14", "flow", "in scope (depot totals do not couple the types) and the start solution has a tour with two activities or at least two vehicles of a type."),
        "C17" => base("C17", "load", "the instance contains a tie: an activity ending exactly when another starts."),
        _ => return None,
    })
}

fn check(prop: &str, tier: &str) -> i32 {
    // the hook-based sweeps clone every stage / step and re-run the search; one hash seed in the quick tier
    let one_seed_quick = matches!(prop, "C07" | "C08" | "C16") && tier == "quick";
    if prop == "C06" {
        return c06(tier);
    }
    if prop == "C18" {
        return http_mc::check(tier);
    }
    if prop == "C11" {
        pool::install_panic_recorder_thread();
        return nbh_mc::check(tier);
    }
    if prop == "C15" {
        pool::install_panic_recorder_thread();
        return c15(tier);
    }
    if prop == "C12" {
        pool::install_panic_recorder_thread();
        return tour_mc::check(tier);
    }
    if matches!(prop, "C09" | "C10" | "C13") {
        pool::install_panic_recorder_thread();
        return sched_mc::check(prop, tier);
    }
    if let Some(mut s) = sweep_spec(prop) {
        if one_seed_quick {
            s.max_seeds = Some(1);
        }
        return sweep::check(s, tier);
    }
    evidence::machinery_error(prop, "no check implemented for this property");
}

fn c15(tier: &str) -> i32 {
    let mut report = evidence::Report::new("C15", tier, "model_checking");
    trans_mc::run_into(&mut report, tier);
    // optimiser part: every transition produced in the solve pipeline (instances with maintenance)
    if std::env::var("RSV_ONLY_EXPLORE").is_ok() {
        return report.finish();
    }
    let s = SweepSpec {
        prop: "C15",
        kind: "solve",
        only_maintenance: true,
        level: "model_checking",
        rule: "",
        assumptions: vec![],
        failures_are_verdicts: false,
        exe: None,
        extra_label: "pipeline",
        max_seeds: if tier == "quick" { Some(1) } else { None },
    };
    sweep::run(&s, tier, &mut report);
    report.cov("rule", json!("(1) Explicit-state BFS over real Transition values: from the empty transition all sequences of new_fast (every vehicle subset), update_vehicle (every tour variant; also two in a row through updated_tours), add_vehicle_to_own_cycle, remove_vehicle, add_vehicle_at_the_end (every cycle index incl. empty ones), move_vehicle, three_opt (all i<j<k) + replace_cycle up to the depth, on 4 vehicles with 2-3 tour variants each (with/without maintenance, different depots, overflow depot); every transition checked against a reference list of cycles, the successor lookup, counters recomputed from the input, a behavioural probe of the reusable-empty-cycle list and the code's own verify_consistency. (2) The optimiser: on every instance of the grammar with maintenance x hash seed, the transition handed to and returned by build_transition_local_search_solver inside the real pipeline (hook H2): same vehicles, internally exact, (violation, counter) not worse. evaluations / distinct_nontrivial count part (2): non-trivial = the optimiser changed a cycle."));
    report.assume("exploration bounded by depth and by the fixed vehicle/tour-variant set; the statement's 'randomly beyond' part is not performed");
    report.assume("part (2) shares the instance grammar, hash seeds and watchdog of the sweep engine");
    report.finish()
}

fn c06(tier: &str) -> i32 {
    let mut report = evidence::Report::new("C06", tier, "exploration");
    report.assume("termination is judged against a horizon of 10 s per instance (normal solve time: milliseconds); non-termination within the horizon is what is reported");
    report.assume("hash-map iteration order is covered for the enumerated hash seeds only");
    report.assume("valid instances = instances of the grammar (README-conformant)");
    for (label, exe) in [("checked", std::env::current_exe().unwrap()), ("deploy", std::path::PathBuf::from("/verif/target/deploy/rsv"))] {
        if !exe.exists() {
            evidence::machinery_error("C06", &format!("{} binary missing: {}", label, exe.display()));
        }
        let s = SweepSpec {
            prop: "C06",
            kind: "solve",
            only_maintenance: false,
            level: "exploration",
            rule: "instance lies in a region named by the property: a vehicle is pushed to the overflow depot, two or more vehicles, or coupled vehicles (counted on answered instances via the outcome summary).",
            assumptions: vec![],
            failures_are_verdicts: true,
            exe: Some(exe),
            extra_label: label,
            // quick: one hash seed per build (two builds); thorough: all seeds
            max_seeds: if tier == "quick" { Some(1) } else { None },
        };
        sweep::run(&s, tier, &mut report);
    }
    report.finish()
}

fn main() {
    let args: Vec<String> = std::env::args().collect();
    match args.get(1).map(|s| s.as_str()) {
        Some("worker") => pool::worker_main(&worker_handle),
        Some("check") => {
            evidence::init_stdout();
            let prop = args.get(2).cloned().unwrap_or_default();
            let prop_for_err = prop.clone();
            let args2 = args.clone();
            let run = std::panic::catch_unwind(move || {
                let args = args2;
                if args.get(3).map(|s| s.as_str()) == Some("--replay") {
                let path = args.get(4).cloned().unwrap_or_default();
                let engine = std::fs::read_to_string(&path).ok().and_then(|t| serde_json::from_str::<Value>(&t).ok()).and_then(|v| v.get("engine").and_then(|e| e.as_str()).map(|s| s.to_string()));
                match engine.as_deref() {
                    Some("http-mc") => http_mc::replay(&path),
                    Some("nbh-mc") => {
                        pool::install_panic_recorder_thread();
                        nbh_mc::replay(&path)
                    }
                    Some("trans-mc") => {
                        pool::install_panic_recorder_thread();
                        trans_mc::replay(&path)
                    }
                    Some("tour-mc") => {
                        pool::install_panic_recorder_thread();
                        tour_mc::replay(&path)
                    }
                    Some("sched-mc") => {
                        pool::install_panic_recorder_thread();
                        sched_mc::replay(&prop, &path)
                    }
                    _ => sweep::replay(&prop, &path),
                }
                } else {
                    let tier = args.get(3).cloned().or_else(|| std::env::var("VERIF_TIER").ok()).unwrap_or_else(|| "quick".into());
                    check(&prop, &tier)
                }
            });
            let code = match run {
                Ok(c) => c,
                Err(_) => {
                    // a panic of the harness itself is a machinery error, never a verdict
                    let p = pool::take_last_panic_any_thread();
                    evidence::machinery_error(&prop_for_err, &format!("harness panicked: {:?}", p));
                }
            };
            std::process::exit(code);
        }
        Some("nbh-debug") => std::process::exit(nbh_mc::debug(&args[2])),
        Some("survey") => {
            evidence::init_stdout();
            let tier = args.get(2).cloned().unwrap_or_else(|| "quick".into());
            std::process::exit(sweep::survey(&tier));
        }
        Some("gen") => {
            // print the input JSON of an instance code
            let inst = grammar::Inst::from_code(&args[2]).expect("bad code");
            println!("{}", serde_json::to_string_pretty(&inst.to_json()).unwrap());
        }
        Some("flow") => {
            // debug: print the min-cost-flow start solution of an instance code under a hash seed
            evidence::init_stdout();
            let inst = grammar::Inst::from_code(&args[2]).expect("bad code");
            let seed: u64 = args.get(3).and_then(|s| s.parse().ok()).unwrap_or(1);
            let input = inst.to_json();
            let r = pool::run_isolated(seed, move || {
                let a = arena::Arena::from_input_no_inits("dbg", "", input, seed);
                let start = solver::min_cost_flow_solver::MinCostFlowSolver::initialize(a.nw.clone()).solve();
                let mut lines = vec![];
                for v in start.vehicles_iter_all() {
                    let t = start.tour_of(v).unwrap();
                    lines.push(format!("{}: {} costs {}", v, t.all_nodes_iter().map(|n| a.nw.node(n).id().to_string()).collect::<Vec<_>>().join(" - "), t.costs()));
                }
                let (viol, _) = c14::check(&a, &start);
                (lines, viol)
            });
            match r {
                Ok((lines, viol)) => {
                    for l in lines {
                        say!("{}", l);
                    }
                    say!("{:?}", viol);
                }
                Err(e) => say!("panic {:?}", e),
            }
        }
        Some("solve-debug") => {
            // debug: run the whole pipeline on an instance code under a hash seed with the default panic hook (backtrace on stderr)
            let inst = grammar::Inst::from_code(&args[2]).expect("bad code");
            let seed: u64 = args.get(3).and_then(|s| s.parse().ok()).unwrap_or(1);
            let input = inst.to_json();
            hashseed::reset(seed);
            let pool = rayon::ThreadPoolBuilder::new().num_threads(1).stack_size(64 << 20).build().expect("rayon pool");
            let out = pool.install(|| server::solve_instance(input));
            eprintln!("solved: {}", out.get("objectiveValue").map(|o| o.to_string()).unwrap_or_default());
        }
        Some("count") => {
            for t in ["quick", "thorough"] {
                let tt = sweep::tier(t, false);
                let tm = sweep::tier(t, true);
                println!("{}: {} instances ({} with maintenance) x {} seeds", t, tt.insts.len(), tm.insts.len(), tt.seeds.len());
            }
        }
        _ => {
            eprintln!("usage: rsv check <ID> <quick|thorough> | rsv check <ID> --replay <file> | rsv worker | rsv gen <code> | rsv count");
            std::process::exit(2);
        }
    }
}
