mod arena;
mod c17;
mod canon;
mod evidence;
mod grammar;
mod hashseed;
mod oracles;
mod pool;
mod sched_mc;
mod sched_ops;
mod sched_oracles;
mod spec;
mod stages;
mod sweep;
mod tour_mc;

use serde_json::{json, Value};
use sweep::SweepSpec;

fn worker_handle(task: &Value) -> Value {
    match task.get("kind").and_then(|k| k.as_str()) {
        Some("solve") => sweep::worker_solve(task),
        Some("load") => sweep::worker_load(task),
        other => json!({"status": "machinery", "msg": format!("unknown task kind {:?}", other)}),
    }
}

fn sweep_spec(prop: &str) -> Option<SweepSpec<'static>> {
    let base = |prop: &'static str, kind: &'static str, rule: &'static str| SweepSpec {
        prop,
        kind,
        only_maintenance: false,
        level: "exploration",
        rule,
        assumptions: vec![],
        failures_are_verdicts: false,
        exe: None,
        extra_label: "",
    };
    Some(match prop {
        "C01" => base("C01", "solve", "the answer contains a vehicle with at least two activities (a consecutive pair exists)."),
        "C02" => base("C02", "solve", "some limit is binding: a formation or slot filled to its limit, demand above the limit, a depot filled to a capacity, or a vehicle pushed to the overflow depot."),
        "C03" => base("C03", "solve", "the answer has a formation of two or more vehicles or a vehicle that changes location (a dead-head trip must be listed)."),
        "C04" => base("C04", "solve", "overflow-free answer with a multi-activity itinerary, positive maintenance violation or unserved passengers (all four components compared exactly)."),
        "C05" => base("C05", "solve", "a vehicle type with at least two vehicles and at least two distinct start depots."),
        "C07" => base("C07", "solve", "some segment needs two or more vehicles."),
        "C08" => {
            let mut s = base("C08", "solve", "the recorded trajectory has at least one accepted step.");
            s.only_maintenance = true;
            s
        }
        "C16" => base("C16", "solve", "the transition optimiser changed at least one rotation cycle (otherwise discarding its result is unobservable)."),
        "C17" => base("C17", "load", "the instance contains a tie: an activity ending exactly when another starts."),
        _ => return None,
    })
}

fn check(prop: &str, tier: &str) -> i32 {
    if prop == "C06" {
        return c06(tier);
    }
    if prop == "C12" {
        pool::install_panic_recorder_thread();
        return tour_mc::check(tier);
    }
    if matches!(prop, "C09" | "C10" | "C13") {
        pool::install_panic_recorder_thread();
        return sched_mc::check(prop, tier);
    }
    if let Some(s) = sweep_spec(prop) {
        return sweep::check(s, tier);
    }
    evidence::machinery_error(prop, "no check implemented for this property");
}

fn c06(tier: &str) -> i32 {
    let mut report = evidence::Report::new("C06", tier, "exploration");
    report.assume("termination is judged against a horizon of 10 s per instance (normal solve time: milliseconds); non-termination within the horizon is what is reported");
    report.assume("hash-map iteration order is covered for the enumerated hash seeds only");
    report.assume("valid instances = instances of the grammar (README-conformant)");
    for (label, exe) in [("checked", std::env::current_exe().unwrap()), ("deploy", std::path::PathBuf::from("/verif/target/deploy/rsv"))] {
        if !exe.exists() {
            evidence::machinery_error("C06", &format!("{} binary missing: {}", label, exe.display()));
        }
        let s = SweepSpec {
            prop: "C06",
            kind: "solve",
            only_maintenance: false,
            level: "exploration",
            rule: "instance lies in a region named by the property: a vehicle is pushed to the overflow depot, two or more vehicles, or coupled vehicles (counted on answered instances via the outcome summary).",
            assumptions: vec![],
            failures_are_verdicts: true,
            exe: Some(exe),
            extra_label: label,
        };
        sweep::run(&s, tier, &mut report);
    }
    report.finish()
}

fn main() {
    let args: Vec<String> = std::env::args().collect();
    match args.get(1).map(|s| s.as_str()) {
        Some("worker") => pool::worker_main(&worker_handle),
        Some("check") => {
            evidence::init_stdout();
            let prop = args.get(2).cloned().unwrap_or_default();
            let code = if args.get(3).map(|s| s.as_str()) == Some("--replay") {
                let path = args.get(4).cloned().unwrap_or_default();
                let engine = std::fs::read_to_string(&path).ok().and_then(|t| serde_json::from_str::<Value>(&t).ok()).and_then(|v| v.get("engine").and_then(|e| e.as_str()).map(|s| s.to_string()));
                match engine.as_deref() {
                    Some("tour-mc") => {
                        pool::install_panic_recorder_thread();
                        tour_mc::replay(&path)
                    }
                    Some("sched-mc") => {
                        pool::install_panic_recorder_thread();
                        sched_mc::replay(&prop, &path)
                    }
                    _ => sweep::replay(&prop, &path),
                }
            } else {
                let tier = args.get(3).cloned().or_else(|| std::env::var("VERIF_TIER").ok()).unwrap_or_else(|| "quick".into());
                check(&prop, &tier)
            };
            std::process::exit(code);
        }
        Some("gen") => {
            // print the input JSON of an instance code
            let inst = grammar::Inst::from_code(&args[2]).expect("bad code");
            println!("{}", serde_json::to_string_pretty(&inst.to_json()).unwrap());
        }
        Some("count") => {
            for t in ["quick", "thorough"] {
                let tt = sweep::tier(t, false);
                let tm = sweep::tier(t, true);
                println!("{}: {} instances ({} with maintenance) x {} seeds", t, tt.insts.len(), tm.insts.len(), tt.seeds.len());
            }
        }
        _ => {
            eprintln!("usage: rsv check <ID> <quick|thorough> | rsv check <ID> --replay <file> | rsv worker | rsv gen <code> | rsv count");
            std::process::exit(2);
        }
    }
}
