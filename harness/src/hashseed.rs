//! Owns the process's source of hash-map randomness: std's `RandomState` keys come from
//! `getrandom(2)`, looked up through `dlsym`.  This definition (exported from the executable, see
//! build.rs) is found first, so every `HashMap` order in the subject is a function of the seed
//! given to `reset`.
use std::sync::atomic::{AtomicU64, Ordering};

static STATE: AtomicU64 = AtomicU64::new(0x9E3779B97F4A7C15);
static CALLS: AtomicU64 = AtomicU64::new(0);

pub fn reset(seed: u64) {
    STATE.store(seed.wrapping_mul(0x9E3779B97F4A7C15) ^ 0xD1B54A32D192ED03, Ordering::SeqCst);
}

pub fn calls() -> u64 {
    CALLS.load(Ordering::SeqCst)
}

thread_local! {
    /// a per-thread stream (0 = none): used by explorers that generate on many threads at once
    static TL_STATE: std::cell::Cell<u64> = const { std::cell::Cell::new(0) };
}

/// give the calling thread its own seeded stream and draw the thread's `RandomState` keys from it now
pub fn seed_this_thread(seed: u64) {
    TL_STATE.with(|c| c.set((seed.wrapping_mul(0x9E3779B97F4A7C15) ^ 0xD1B54A32D192ED03) | 1));
    let _ = std::collections::hash_map::RandomState::new();
}

fn next() -> u64 {
    // SplitMix64
    let tl = TL_STATE.with(|c| {
        let v = c.get();
        if v != 0 {
            c.set(v.wrapping_add(0x9E3779B97F4A7C15) | 1);
        }
        v
    });
    let mut z = if tl != 0 { tl.wrapping_add(0x9E3779B97F4A7C15) } else { STATE.fetch_add(0x9E3779B97F4A7C15, Ordering::SeqCst).wrapping_add(0x9E3779B97F4A7C15) };
    z = (z ^ (z >> 30)).wrapping_mul(0xBF58476D1CE4E5B9);
    z = (z ^ (z >> 27)).wrapping_mul(0x94D049BB133111EB);
    z ^ (z >> 31)
}

#[no_mangle]
pub unsafe extern "C" fn getrandom(buf: *mut u8, len: usize, _flags: u32) -> isize {
    CALLS.fetch_add(1, Ordering::SeqCst);
    let mut i = 0;
    while i < len {
        let v = next().to_le_bytes();
        let n = (len - i).min(8);
        std::ptr::copy_nonoverlapping(v.as_ptr(), buf.add(i), n);
        i += n;
    }
    len as isize
}
