//! Engine B': the neighbourhood state graph (C11). From the improved flow start solution of each
//! arena, all walks of bounded length where a step is ANY candidate of the real
//! `RSSchedParallelNeighborhood::neighbors_of` (improving or not); every candidate of every visited
//! schedule is checked.
use crate::arena::Arena;
use crate::canon::{caches_key, ranked_key, schedule_key};
use crate::evidence::*;
use crate::sched_mc::{load_arena, ARENAS};
use crate::sched_oracles::{c09, c10, C09Stats};
use rapid_solve::heuristics::common::ParallelNeighborhood;
use rapid_time::Duration;
use rayon::iter::ParallelIterator;
use serde_json::{json, Value};
use solver::local_search::neighborhood::swaps::SwapInfo;
use solver::local_search::neighborhood::RSSchedParallelNeighborhood;
use solver::local_search::ScheduleWithInfo;
use std::collections::{BTreeMap, BTreeSet, HashSet};

fn kind_of(i: SwapInfo) -> &'static str {
    match i {
        SwapInfo::SpawnVehicleForMaintenance(_) => "maintenance spawn",
        SwapInfo::PathExchange(_) => "path exchange",
        SwapInfo::AddTripForHitchHiking(_) => "hitch-hiking",
        SwapInfo::RemoveSingleNode(_) => "node removal",
        SwapInfo::NoSwap => "none",
    }
}

struct Found {
    arena: usize,
    walk: Vec<String>,
    clause: String,
    detail: String,
}

#[derive(Default)]
struct Stats {
    states: usize,
    candidates: usize,
    per_kind: BTreeMap<&'static str, usize>,
    per_depth: Vec<usize>,
    distinct_candidate_schedules: usize,
    guided_roots: usize,
}

fn neighbourhood(a: &Arena, limited: bool) -> RSSchedParallelNeighborhood {
    if limited {
        // the parameters of solver::local_search::build_local_search_solver
        RSSchedParallelNeighborhood::new(Some(Duration::new("3:00:00")), Some(Duration::new("0:10:00")), a.nw.clone())
    } else {
        RSSchedParallelNeighborhood::new(None, None, a.nw.clone())
    }
}

/// candidates of `base`, generated on a fresh single-threaded pool whose thread has the hash seed GEN_SEED:
/// what the neighbourhood offers depends on hash-map iteration orders inside the subject, so the explorer
/// owns them (the same walk then yields the same schedules in every process)
fn generate(nb: &RSSchedParallelNeighborhood, base: &ScheduleWithInfo) -> Result<Vec<ScheduleWithInfo>, (String, String)> {
    if std::env::var("RSV_UNCONTROLLED").is_ok() {
        // development aid: free-running generation on the global pool (hash orders and thread interleaving not owned)
        return std::panic::catch_unwind(std::panic::AssertUnwindSafe(|| nb.neighbors_of(base).collect::<Vec<ScheduleWithInfo>>())).map_err(|_| crate::pool::take_last_panic_any_thread().unwrap_or(("?".into(), "?".into())));
    }
    crate::pool::run_isolated_tl(GEN_SEED.load(std::sync::atomic::Ordering::SeqCst), || nb.neighbors_of(base).collect::<Vec<ScheduleWithInfo>>())
}

/// hash seed of the candidate generation (set per exploration)
static GEN_SEED: std::sync::atomic::AtomicU64 = std::sync::atomic::AtomicU64::new(1);

fn tours_text(a: &Arena, s: &solution::Schedule) -> String {
    s.vehicles_iter_all().chain(s.dummy_iter()).map(|v| format!("{}: {:?}", v, s.tour_of(v).unwrap().all_nodes_iter().map(|n| a.nw.node(n).id().to_string()).collect::<Vec<_>>())).collect::<Vec<_>>().join("; ")
}

fn real_tours(s: &solution::Schedule) -> BTreeMap<String, Vec<usize>> {
    s.vehicles_iter_all().map(|v| (format!("{}", v), s.tour_of(v).unwrap().all_nodes_iter().map(|n| n.idx() as usize).collect())).collect()
}

fn dummy_shape(s: &solution::Schedule) -> (usize, usize) {
    let ds: Vec<_> = s.dummy_iter().collect();
    (ds.len(), ds.iter().map(|d| s.tour_of(*d).unwrap().all_nodes_iter().count()).sum())
}

/// Roots far from the start solution, each reached by a *guided walk* of real neighbourhood steps (so they are
/// reachable schedules in the sense of the property, and a violation found from them replays from the start):
/// for each vehicle v of the start solution, take node-removal candidates that shorten v's tour (all other
/// vehicles unchanged) until v is gone, then take dummy-to-dummy path exchanges that merge two dummy tours
/// until none is offered.  The result holds dummy tours with several activities next to the remaining vehicles.
fn guided_roots(nb: &RSSchedParallelNeighborhood, start: &solution::Schedule) -> Vec<(ScheduleWithInfo, Vec<String>)> {
    let mut out = vec![];
    let vehicles: Vec<_> = start.vehicles_iter_all().take(3).collect();
    for v in vehicles {
        let mut cur = ScheduleWithInfo::new(start.clone(), SwapInfo::NoSwap, "start".into());
        let mut walk: Vec<String> = vec![];
        let mut ok = true;
        for _ in 0..16 {
            let s = cur.get_schedule();
            let removing = s.is_vehicle(v);
            let before = real_tours(s);
            let (nd, nn) = dummy_shape(s);
            let vname = format!("{}", v);
            let cands = match generate(nb, &cur) {
                Ok(c) => c,
                Err(_) => {
                    ok = false; // the panic itself is reported when this state is expanded by the explorer, if it is reached there
                    break;
                }
            };
            let next = cands.into_iter().find(|c| {
                let t = c.get_schedule();
                let after = real_tours(t);
                if removing {
                    matches!(c.get_last_swap_info(), SwapInfo::RemoveSingleNode(_))
                        && before.iter().all(|(k, tour)| if *k == vname { after.get(k).map(|x| x.len() + 1 == tour.len()).unwrap_or(true) } else { after.get(k) == Some(tour) })
                        && after.keys().all(|k| before.contains_key(k))
                } else {
                    let (nd2, nn2) = dummy_shape(t);
                    matches!(c.get_last_swap_info(), SwapInfo::PathExchange(_)) && after == before && nd2 + 1 == nd && nn2 == nn
                }
            });
            match next {
                Some(n) => {
                    walk.push(n.get_print_text().to_string());
                    cur = n;
                }
                None => break,
            }
        }
        if ok && !walk.is_empty() {
            out.push((cur, walk));
        }
    }
    out
}

fn explore(a: &Arena, arena_id: usize, depth: usize, limited: bool, st: &mut Stats, found: &mut Vec<Found>) {
    let nb = neighbourhood(a, limited);
    let start = match a.inits.iter().find(|(n, _)| *n == "min_cost_flow+improve_depots") {
        Some(s) => s.1.clone(),
        None => {
            // the start solution itself could not be built: candidates cannot be generated at all
            for (what, site, msg) in &a.init_failures {
                let short: String = msg.chars().take(80).collect();
                found.push(Found { arena: arena_id, walk: vec![], clause: format!("panic:initial-state:{}:{}", site_without_line(site), short), detail: format!("{} panicked at {}: {}", what, site, short) });
            }
            return;
        }
    };
    let mut seen: HashSet<String> = HashSet::new();
    seen.insert(ranked_key(&start));
    let mut frontier: Vec<(ScheduleWithInfo, Vec<String>)> = vec![(ScheduleWithInfo::new(start.clone(), SwapInfo::NoSwap, "start".into()), vec![])];
    // further roots, far from the start: guided walks through the real neighbourhood (see `guided_roots`)
    for (root, walk) in guided_roots(&nb, &start) {
        if seen.insert(ranked_key(root.get_schedule())) {
            frontier.push((root, walk));
            st.guided_roots += 1;
        }
    }
    st.states += frontier.len();
    st.per_depth.push(frontier.len());
    for d in 0..=depth {
        // candidates of every state of this level are generated and checked; only up to `depth` levels are expanded
        let nthreads = 16usize;
        // per state: (candidates with their keys - the schedule itself only if it may be expanded -, kinds, violations)
        type PerState = (Vec<(String, Option<ScheduleWithInfo>)>, Vec<&'static str>, Vec<Found>);
        let mut next = vec![];
        let mut idx = 0usize;
        // the level is processed in batches so that only one batch's candidates are in memory at a time
        for batch in frontier.chunks(1024) {
        let chunk = ((batch.len() + nthreads - 1) / nthreads).max(1);
        let results: Vec<Vec<PerState>> = std::thread::scope(|sc| {
            let hs: Vec<_> = batch
                .chunks(chunk)
                .map(|items| {
                    let nb = &nb;
                    sc.spawn(move || {
                        crate::pool::install_panic_recorder_thread();
                        let mut out: Vec<PerState> = vec![];
                        for (base, walk) in items {
                            let mut fnd: Vec<Found> = vec![];
                            let bk = schedule_key(base.get_schedule());
                            let bc = caches_key(base.get_schedule());
                            let cands = match generate(nb, base) {
                                Ok(c) => c,
                                Err((site, msg)) => {
                                    let short: String = msg.chars().take(80).collect();
                                    fnd.push(Found { arena: arena_id, walk: walk.clone(), clause: "panic:candidate-generation".to_string(), detail: format!("generating the candidates panicked at {}: {}; base schedule: {}", site, short, tours_text(a, base.get_schedule())) });
                                    out.push((vec![], vec![], fnd));
                                    continue;
                                }
                            };
                            if schedule_key(base.get_schedule()) != bk || caches_key(base.get_schedule()) != bc {
                                fnd.push(Found { arena: arena_id, walk: walk.clone(), clause: "base-modified".into(), detail: "the base schedule changed while its candidates were generated".into() });
                            }
                            let kinds: Vec<&'static str> = cands.iter().map(|c| kind_of(c.get_last_swap_info())).collect();
                            let mut keyed = vec![];
                            for c in cands {
                                let mut cs = C09Stats { differential_checked: 0, differential_skipped: 0 };
                                let r = std::panic::catch_unwind(std::panic::AssertUnwindSafe(|| {
                                    let mut v = c10(a, c.get_schedule());
                                    v.extend(c09(a, 1000 + arena_id, c.get_schedule(), &mut cs));
                                    v
                                }));
                                let list = match r {
                                    Ok(l) => l,
                                    Err(_) => {
                                        let _ = crate::pool::take_last_panic_any_thread();
                                        vec![("oracle-panic".to_string(), "evaluating the candidate panicked (a getter of the candidate schedule panics)".to_string())]
                                    }
                                };
                                for (cl, de) in list {
                                    if fnd.len() < 50 {
                                        let mut w = walk.clone();
                                        w.push(c.get_print_text().to_string());
                                        fnd.push(Found { arena: arena_id, walk: w, clause: cl, detail: de });
                                    }
                                }
                                let k = ranked_key(c.get_schedule());
                                keyed.push((k, if d < depth { Some(c) } else { None }));
                            }
                            out.push((keyed, kinds, fnd));
                        }
                        out
                    })
                })
                .collect();
            hs.into_iter().map(|h| h.join().expect("explorer thread")).collect()
        });
        for chunk_res in results {
            for (keyed, kinds, fnd) in chunk_res {
                let walk = frontier[idx].1.clone();
                idx += 1;
                st.candidates += keyed.len();
                for k in kinds {
                    *st.per_kind.entry(k).or_insert(0) += 1;
                }
                for f in fnd {
                    if found.len() < 500 {
                        found.push(f);
                    }
                }
                for (k, c) in keyed {
                    if seen.insert(k) {
                        st.distinct_candidate_schedules += 1;
                        if let Some(c) = c {
                            let mut w = walk.clone();
                            w.push(c.get_print_text().to_string());
                            next.push((c, w));
                        }
                    }
                }
            }
        }
        }
        if d < depth {
            st.states += next.len();
            st.per_depth.push(next.len());
        }
        frontier = next;
        if frontier.is_empty() {
            break;
        }
    }
}

/// re-walk a recorded walk by candidate text and re-check the last candidate
fn replay_walk(a: &Arena, arena_id: usize, limited: bool, walk: &[String]) -> Result<Vec<(String, String)>, String> {
    let nb = neighbourhood(a, limited);
    let start = match a.inits.iter().find(|(n, _)| *n == "min_cost_flow+improve_depots") {
        Some(s) => s.1.clone(),
        None => {
            return Ok(a.init_failures.iter().map(|(what, site, msg)| {
                let short: String = msg.chars().take(80).collect();
                (format!("panic:initial-state:{}:{}", site_without_line(site), short), format!("{} panicked at {}: {}", what, site, short))
            }).collect())
        }
    };
    let mut cur = ScheduleWithInfo::new(start, SwapInfo::NoSwap, "start".into());
    for (i, step) in walk.iter().enumerate() {
        let cands = match generate(&nb, &cur) {
            Ok(c) => c,
            Err((site, msg)) => {
                let short: String = msg.chars().take(80).collect();
                return Ok(vec![("panic:candidate-generation".to_string(), format!("generating the candidates panicked at {}: {}", site, short))]);
            }
        };
        let nxt = cands.into_iter().find(|c| c.get_print_text() == step).ok_or_else(|| format!("walk diverged at step {}: no candidate '{}'", i + 1, step))?;
        cur = nxt;
    }
    {
        // a violation may be about generating the candidates of the schedule the walk ends in: regenerate
        if let Err((site, msg)) = generate(&nb, &cur) {
            let short: String = msg.chars().take(80).collect();
            return Ok(vec![("panic:candidate-generation".to_string(), format!("generating the candidates panicked at {}: {}", site, short))]);
        }
    }
    let mut cs = C09Stats { differential_checked: 0, differential_skipped: 0 };
    let mut out = c10(a, cur.get_schedule());
    out.extend(c09(a, 1000 + arena_id, cur.get_schedule(), &mut cs));
    Ok(out)
}

pub fn check(tier: &str) -> i32 {
    let mut report = Report::new("C11", tier, "model_checking");
    let depth: usize = std::env::var("RSV_DEPTH").ok().and_then(|s| s.parse().ok()).unwrap_or(if tier == "thorough" { 5 } else { 3 });
    let arena_ids: Vec<usize> = match std::env::var("RSV_ARENAS") {
        Ok(a) => a.split(',').filter_map(|x| x.parse().ok()).collect(),
        Err(_) => vec![0, 1, 2, 3, 4, 5, 6, 7],
    };
    let variants: Vec<bool> = if tier == "thorough" { vec![true, false] } else { vec![true] };
    // hash seeds of the candidate generation (what the neighbourhood offers depends on hash-map orders)
    let seeds: Vec<u64> = match std::env::var("RSV_SEEDS") {
        Ok(s) => s.split(',').filter_map(|x| x.parse().ok()).collect(),
        Err(_) => if tier == "thorough" { vec![1, 2] } else { vec![1] },
    };
    let mut total = Stats::default();
    let mut found: Vec<Found> = vec![];
    let mut per_arena = vec![];
    let mut arenas = vec![];
    for &i in &arena_ids {
        let a = load_arena(i);
        for &(limited, seed) in &variants.iter().flat_map(|l| seeds.iter().map(move |s| (*l, *s))).collect::<Vec<_>>() {
            GEN_SEED.store(seed, std::sync::atomic::Ordering::SeqCst);
            // smaller arenas go one step deeper in the thorough tier
            let depth = if tier == "thorough" && std::env::var("RSV_DEPTH").is_err() && matches!(i, 1 | 3 | 6 | 7) { depth + 1 } else { depth };
            // the second hash seed of the thorough tier only serves to show that the graph does not depend on hash orders: walk length 3
            let depth = if seed != seeds[0] && std::env::var("RSV_DEPTH").is_err() { 3 } else { depth };
            let mut st = Stats::default();
            let mut f = vec![];
            explore(&a, i, depth, limited, &mut st, &mut f);
            per_arena.push(json!({"arena": a.name, "hash_seed": seed, "guided_roots": st.guided_roots, "walk_length": depth, "code": a.code, "neighbourhood": if limited { "solver parameters (segments <= 3 h, overhead threshold 10 min)" } else { "unlimited segments, no threshold" }, "states_expanded": st.states, "candidates": st.candidates, "distinct_candidate_schedules": st.distinct_candidate_schedules, "states_per_depth": st.per_depth, "candidates_per_kind": st.per_kind}));
            total.states += st.states;
            total.candidates += st.candidates;
            total.distinct_candidate_schedules += st.distinct_candidate_schedules;
            for (k, c) in st.per_kind {
                *total.per_kind.entry(k).or_insert(0) += c;
            }
            for mut x in f {
                x.walk.insert(0, format!("{}#{}", if limited { "limited" } else { "unlimited" }, seed));
                found.push(x);
            }
        }
        arenas.push((i, a));
    }
    found.sort_by_key(|f| f.walk.len());
    let mut by_clause: BTreeMap<String, usize> = BTreeMap::new();
    let mut seen = BTreeSet::new();
    let mut kept = 0;
    for f in &found {
        *by_clause.entry(f.clause.clone()).or_insert(0) += 1;
        let first = seen.insert(f.clause.clone());
        if !first && kept >= 8 {
            continue;
        }
        kept += 1;
        let a = &arenas.iter().find(|(i, _)| *i == f.arena).unwrap().1;
        let limited = f.walk[0].starts_with("limited");
        let seed: u64 = f.walk[0].split('#').nth(1).and_then(|x| x.parse().ok()).unwrap_or(1);
        GEN_SEED.store(seed, std::sync::atomic::Ordering::SeqCst);
        let walk: Vec<String> = f.walk[1..].to_vec();
        if kept <= 3 {
            let r1 = replay_walk(a, f.arena, limited, &walk);
            let r2 = replay_walk(a, f.arena, limited, &walk);
            let clauses = |r: &Result<Vec<(String, String)>, String>| r.clone().map(|v| v.into_iter().map(|(c, _)| c).collect::<Vec<_>>());
            if clauses(&r1) != clauses(&r2) {
                machinery_error("C11", &format!("replay diverged: {:?} vs {:?}", r1, r2));
            }
            if !r1.map(|v| v.iter().any(|(c, _)| *c == f.clause) || f.clause == "base-modified").unwrap_or(false) {
                machinery_error("C11", &format!("violation {} did not reproduce on replay", f.clause));
            }
        }
        let sig = if f.clause.starts_with("panic:") { f.clause.clone() } else { format!("{}:{}:{}", f.clause, a.name, digest(&format!("{}|{}", seed, walk.join("|")))) };
        report.violation(Violation {
            signature: sig,
            what: format!("{}: {} -- arena {} (hash seed {}) after the walk {:?}", f.clause, f.detail, a.name, seed, walk),
            replay: json!({"engine": "nbh-mc", "arena": ARENAS[f.arena].name, "arena_index": f.arena, "arena_code": a.code, "limited": limited, "hash_seed": seed, "walk": walk, "failing_clause": f.clause}),
        });
    }
    report.violation_total = found.len();
    let vacuous: Vec<&str> = ["maintenance spawn", "path exchange", "hitch-hiking", "node removal"].into_iter().filter(|k| total.per_kind.get(k).copied().unwrap_or(0) == 0).collect();
    report.cov("states", json!(total.states));
    report.cov("transitions", json!(total.candidates));
    report.cov("traces_validated_against_impl", json!(total.candidates));
    report.cov("evaluations", json!(total.candidates));
    report.cov("distinct_nontrivial", json!(total.distinct_candidate_schedules));
    report.cov("depth", json!(depth));
    report.cov("arenas", json!(per_arena));
    report.cov("candidates_per_kind", json!(total.per_kind));
    report.cov("kinds_never_producing_a_candidate", json!(vacuous));
    report.cov("violations_by_clause", json!(by_clause));
    report.cov("rule", json!("From the improved min-cost-flow start solution of each arena (all have maintenance slots): every schedule reachable by a walk of at most `depth` steps, a step being ANY candidate of the real neighbors_of; for every such schedule all its candidates are generated and each is checked (structure as C10, caches as C09, no panic, base schedule key and caches unchanged). states = schedules whose candidates were generated, transitions = candidates checked. Non-trivial/distinct = distinct candidate schedules."));
    report.cov("exhaustive", json!(true));
    report.cov("samples", json!(found.iter().take(1).map(|f| json!(f.walk)).chain(std::iter::once(json!({"arena": "slot-tie", "walk": ["<any candidate text, e.g. PathExchange [trip_7] from veh_0 (A) to veh_1 (A)>"]}))).collect::<Vec<Value>>()));
    report.assume("the neighbourhood is constructed with the parameters of build_local_search_solver (segment limit 3 h, overhead threshold 10 min), copied into the harness because the factory does not expose it; the thorough tier also explores the unlimited neighbourhood");
    report.assume("bounded by walk length and arena set");
    report.finish()
}

pub fn replay(path: &str) -> i32 {
    let txt = std::fs::read_to_string(path).unwrap_or_else(|e| machinery_error("C11", &format!("cannot read {}: {}", path, e)));
    let r: Value = serde_json::from_str(&txt).unwrap_or_else(|e| machinery_error("C11", &format!("bad replay file: {}", e)));
    let i = r["arena_index"].as_u64().unwrap_or(0) as usize;
    let a = load_arena(i);
    let walk: Vec<String> = r["walk"].as_array().map(|w| w.iter().filter_map(|x| x.as_str().map(|s| s.to_string())).collect()).unwrap_or_default();
    GEN_SEED.store(r["hash_seed"].as_u64().unwrap_or(1), std::sync::atomic::Ordering::SeqCst);
    match replay_walk(&a, i, r["limited"].as_bool().unwrap_or(true), &walk) {
        Ok(v) if v.is_empty() => {
            crate::say!("replay passes");
            0
        }
        Ok(v) => {
            for (c, d) in v {
                crate::say!("  {}: {}", c, d);
            }
            crate::say!("VIOLATION property=C11 replay={}", path);
            1
        }
        Err(e) => machinery_error("C11", &e),
    }
}

/// development aid: after re-walking a recorded walk, apply every path exchange (provider, segment, receiver)
/// step by step through the Schedule API and print the ones that panic
pub fn debug(path: &str) -> i32 {
    use solution::segment::Segment;
    let txt = std::fs::read_to_string(path).expect("replay file");
    let r: Value = serde_json::from_str(&txt).expect("json");
    let i = r["arena_index"].as_u64().unwrap_or(0) as usize;
    let a = load_arena(i);
    let walk: Vec<String> = r["walk"].as_array().map(|w| w.iter().filter_map(|x| x.as_str().map(|s| s.to_string())).collect()).unwrap_or_default();
    GEN_SEED.store(r["hash_seed"].as_u64().unwrap_or(1), std::sync::atomic::Ordering::SeqCst);
    let nb = neighbourhood(&a, r["limited"].as_bool().unwrap_or(true));
    let start = a.inits.iter().find(|(n, _)| *n == "min_cost_flow+improve_depots").unwrap().1.clone();
    let mut cur = ScheduleWithInfo::new(start, SwapInfo::NoSwap, "start".into());
    for step in &walk {
        let cands: Vec<ScheduleWithInfo> = generate(&nb, &cur).expect("candidates");
        let texts: Vec<String> = cands.iter().map(|c| c.get_print_text().to_string()).collect();
        cur = match cands.into_iter().find(|c| c.get_print_text() == step) {
            Some(c) => c,
            None => {
                let s = cur.get_schedule();
                for v in s.vehicles_iter_all().chain(s.dummy_iter()) {
                    crate::say!("{}: {:?}", v, s.tour_of(v).unwrap().all_nodes_iter().map(|n| a.nw.node(n).id().to_string()).collect::<Vec<_>>());
                }
                crate::say!("no candidate {}; candidates: {:#?}", step, texts);
                return 2;
            }
        };
    }
    let s = cur.get_schedule();
    let name = |n: model::base_types::NodeIdx| a.nw.node(n).id().to_string();
    for v in s.vehicles_iter_all().chain(s.dummy_iter()) {
        crate::say!("{}: {:?}", v, s.tour_of(v).unwrap().all_nodes_iter().map(name).collect::<Vec<_>>());
    }
    crate::pool::install_panic_recorder_thread();
    let all: Vec<_> = s.dummy_iter().chain(s.vehicles_iter_all()).collect();
    for &p in &all {
        let ns: Vec<_> = s.tour_of(p).unwrap().all_non_depot_nodes_iter().collect();
        for x in 0..ns.len() {
            for y in x..ns.len() {
                let seg = Segment::new(ns[x], ns[y]);
                if s.tour_of(p).unwrap().check_removable(seg).is_err() {
                    continue;
                }
                for &rcv in &all {
                    if rcv == p {
                        continue;
                    }
                    let res = std::panic::catch_unwind(std::panic::AssertUnwindSafe(|| s.override_reassign(seg, p, rcv)));
                    match res {
                        Err(_) => crate::say!("override_reassign [{}..{}] {} -> {} PANICS {:?}", name(ns[x]), name(ns[y]), p, rcv, crate::pool::take_last_panic_any_thread()),
                        Ok(Ok((first, Some(nd)))) if first.is_vehicle_or_dummy(p) => {
                            let t = first.tour_of(nd).unwrap();
                            let full = Segment::new(t.first_node(), t.last_node());
                            let nodes: Vec<String> = t.all_nodes_iter().map(name).collect();
                            let r2 = std::panic::catch_unwind(std::panic::AssertUnwindSafe(|| first.fit_reassign(full, nd, p).map(|_| ())));
                            if r2.is_err() {
                                crate::say!("after override_reassign [{}..{}] {} -> {}: new dummy {} = {:?}; fit_reassign(full, {}, {}) PANICS {:?}", name(ns[x]), name(ns[y]), p, rcv, nd, nodes, nd, p, crate::pool::take_last_panic_any_thread());
                                for v in first.vehicles_iter_all().chain(first.dummy_iter()) {
                                    crate::say!("   {}: {:?}", v, first.tour_of(v).unwrap().all_nodes_iter().map(name).collect::<Vec<_>>());
                                }
                            }
                        }
                        _ => {}
                    }
                }
            }
        }
    }
    0
}
