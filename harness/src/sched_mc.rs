//! Engine B: explicit-state exploration of the schedule state graph. States are real `Schedule`
//! objects, transitions are real calls of the public modifications with all valid arguments.
//! Serves C09 (caches), C10 (structural invariants), C13 (effect and frame of each step).
use crate::arena::Arena;
use crate::canon::{caches_key, ranked_key, schedule_key};
use crate::evidence::*;
use crate::sched_ops::*;
use crate::sched_oracles::*;
use serde_json::{json, Value};
use solution::Schedule;
use std::collections::{BTreeMap, BTreeSet, HashSet};

pub struct ArenaDef {
    pub name: &'static str,
    pub code: &'static str,
    pub why: &'static str,
}

/// Fixed members of the grammar chosen so that the code's shortcuts are all exercised somewhere.
pub const ARENAS: &[ArenaDef] = &[
    ArenaDef { name: "slot-tie", code: "0,0,0,0,0,2,1,0,0,0,0,0;0.0.0.1,0.1.1.1,0.0.3.2", why: "two-track slot, binding maximalDistance, back-to-back tie at zero shunting, one trip needing two vehicles" },
    ArenaDef { name: "two-types-scarce-depot", code: "3,0,0,0,2,1,1,0,0,0,0,0;0.0.0.1,1.0.0.1,0.1.2.1", why: "two vehicle types, one depot of capacity 1 (overflow depot in use), one slot" },
    ArenaDef { name: "limits-forbid", code: "2,3,1,1,0,1,1,0,0,1,0,0;0.0.0.3,0.1.2.1,0.0.3.1", why: "type limit 2 and segment limit 1, minimal shunting 300 s, dead-heads forbidden, seated demand binding (seats, not capacity, decide the vehicles needed)" },
    ArenaDef { name: "slow-deadheads-overlap-slot", code: "0,0,0,0,4,4,1,2,0,0,0,0;0.0.0.1,0.1.1.1,0.0.3.1", why: "dead-heads slower than a service trip (non-transitive reachability), slot tying with the trips, two depots of capacity 1" },
    ArenaDef { name: "non-metric-three-locations", code: "0,0,2,0,7,3,1,3,3,0,0,0;0.0.0.1,0.1.1.2,0.0.3.1", why: "three locations with a non-metric dead-head matrix, two slots, idle-dominant costs, dead-head shunting" },
    ArenaDef { name: "rich-two-types-two-segments-colocated", code: "3,4,2,0,9,2,1,5,0,0,1,0,0,0;0.0.0.2,1.1.3.0,0.1.2.0", why: "two types, a two-segment route limited to one vehicle on its first segment only (the second needs two), two locations 0 s / 0 m apart, dead-head shunting 300 s, one depot of total 2 with mixed per-type limits, two-track slot; a trip of the other type can follow the two-segment trip (dummy tours of mixed types)" },
    ArenaDef { name: "partial-allowed-types", code: "3,0,0,0,6,1,1,0,0,0,0,0,0,0;0.1.0.1,1.0.0.1,0.0.2.1", why: "the depot at L0 does not list type A although A trips end there (end depots with capacity 0 for the type), the other depot has capacity 1" },
    ArenaDef { name: "tight-detour", code: "0,0,4,0,0,8,1,4,0,0,0,0,0,0;0.0.0.0,0.0.1.0,0.1.2.0", why: "minimal shunting 900 s but 60 s dead-heads: a five-minute slot at L0 is the only connection between an arrival at L1 (09:00) and a departure there (09:10); tours and dummy tours whose trips are connectable only through the slot" },
];

pub struct Bounds {
    pub name: &'static str,
    pub depth: usize,
    pub arenas: Vec<usize>,
    pub menu: Menu,
}

fn menu(chain_len: usize, depot_shapes: bool, both_depots: bool, max_dummies: usize) -> Menu {
    Menu { chain_len, both_depots, depot_shapes, max_real: 3, max_dummies, transitions: true }
}

/// Exploration plans of a tier: wide menus shallow, narrower menus deeper (every plan is exhaustive
/// for its own alphabet and depth).
pub fn plans(tier: &str) -> Vec<Bounds> {
    let mut v = if tier == "thorough" {
        vec![
            Bounds { name: "wide-depth3", depth: 3, arenas: vec![0, 1, 2, 3, 4, 5, 6, 7], menu: menu(2, true, true, 3) },
            Bounds { name: "plain-paths-depth4", depth: 4, arenas: vec![0, 1, 2, 3, 4, 5, 6, 7], menu: menu(2, false, false, 3) },
            Bounds { name: "single-nodes-depth5", depth: 5, arenas: vec![0], menu: menu(1, false, false, 3) },
        ]
    } else {
        vec![
            Bounds { name: "wide-depth2", depth: 2, arenas: vec![0, 1, 2, 3, 4, 5, 6, 7], menu: menu(2, true, true, 2) },
            Bounds { name: "plain-paths-depth3", depth: 3, arenas: vec![0, 1, 3, 5, 6, 7], menu: menu(2, false, false, 2) },
        ]
    };
    if let Some(d) = std::env::var("RSV_DEPTH").ok().and_then(|s| s.parse().ok()) {
        v.truncate(1);
        v[0].depth = d;
    }
    if let Some(c) = std::env::var("RSV_CHAIN").ok().and_then(|s| s.parse().ok()) {
        v[0].menu.chain_len = c;
    }
    if let Some(c) = std::env::var("RSV_DEPOT_SHAPES").ok().and_then(|s| s.parse::<u8>().ok()) {
        v[0].menu.depot_shapes = c != 0;
    }
    if let Ok(a) = std::env::var("RSV_ARENAS") {
        for b in v.iter_mut() {
            b.arenas = a.split(',').filter_map(|x| x.parse().ok()).collect();
        }
    }
    v
}

pub fn initial_states(a: &Arena) -> Vec<(&'static str, Schedule)> {
    a.inits.clone()
}

/// concurrent set of state keys (64 shards): successors are de-duplicated the moment they are generated,
/// so a level never holds more than its distinct states in memory
pub struct Seen {
    shards: Vec<std::sync::Mutex<HashSet<u128>>>,
}

impl Seen {
    pub fn new() -> Seen {
        Seen { shards: (0..64).map(|_| std::sync::Mutex::new(HashSet::new())).collect() }
    }
    /// true if the key was new
    pub fn insert(&self, k: u128) -> bool {
        self.shards[(k as usize) % 64].lock().unwrap().insert(k)
    }
}

fn key128(s: &str) -> u128 {
    let mut h1: u64 = 0xcbf29ce484222325;
    let mut h2: u64 = 0x9E3779B97F4A7C15;
    for b in s.as_bytes() {
        h1 ^= *b as u64;
        h1 = h1.wrapping_mul(0x100000001b3);
        h2 = (h2 ^ (*b as u64)).wrapping_mul(0xff51afd7ed558ccd).rotate_left(23);
    }
    ((h1 as u128) << 64) | h2 as u128
}

#[derive(Default, Clone)]
pub struct Stats {
    pub states: usize,
    pub transitions: usize,
    pub rejected: usize,
    pub panics: usize,
    pub changed: usize,
    pub per_op: BTreeMap<&'static str, (usize, usize, usize)>, // ok, err, panic
    pub differential_checked: usize,
    pub differential_skipped: usize,
    pub states_per_depth: Vec<usize>,
    pub not_expanded_over_cap: usize,
}

#[derive(Clone)]
pub struct Found {
    pub arena: usize,
    pub init: &'static str,
    pub history: Vec<Op>,
    pub clause: String,
    pub detail: String,
}

struct Item {
    s: Schedule,
    init: &'static str,
    history: Vec<Op>,
}

/// evaluate the property's oracle on one step; `pre` None for initial states
fn check_step(prop: &str, a: &Arena, arena_id: usize, pre: Option<(&Schedule, &RefState)>, op: Option<&Op>, post: &Schedule, ret: &Ret, st: &mut Stats) -> Viol {
    match prop {
        "C09" => {
            let mut cs = C09Stats { differential_checked: 0, differential_skipped: 0 };
            let v = c09(a, arena_id, post, &mut cs);
            st.differential_checked += cs.differential_checked;
            st.differential_skipped += cs.differential_skipped;
            v
        }
        "C10" => c10(a, post),
        "C13" => match (pre, op) {
            (Some((_, pre_ref)), Some(op)) => c13(a, pre_ref, op, &extract(a, post), ret),
            _ => vec![],
        },
        _ => vec![],
    }
}

pub fn explore(prop: &str, a: &Arena, arena_id: usize, b: &Bounds, stats: &mut Stats, found: &mut Vec<Found>) {
    // a panic of the subject while computing an initial state: arithmetic slips belong to C09, any panic of a call inside the domain to C13
    for (what, site, msg) in &a.init_failures {
        let arithmetic = msg.contains("subtract") || msg.contains("overflow") || msg.contains("Cannot subtract");
        if prop == "C13" || (prop == "C09" && arithmetic) {
            let short: String = msg.chars().take(80).collect();
            found.push(Found { arena: arena_id, init: "empty", history: vec![], clause: format!("panic:initial-state:{}:{}", site_without_line(site), short), detail: format!("{} panicked at {}: {}", what, site, short) });
        }
    }
    let seen = Seen::new();
    let mut frontier: Vec<Item> = vec![];
    for (name, s) in initial_states(a) {
        let mut st = Stats::default();
        for (c, d) in check_step(prop, a, arena_id, None, None, &s, &Ret::None, &mut st) {
            found.push(Found { arena: arena_id, init: name, history: vec![], clause: c, detail: d });
        }
        stats.differential_checked += st.differential_checked;
        stats.differential_skipped += st.differential_skipped;
        if seen.insert(key128(&ranked_key(&s))) {
            frontier.push(Item { s, init: name, history: vec![] });
        }
    }
    stats.states += frontier.len();
    stats.states_per_depth.push(frontier.len());
    let nthreads = std::thread::available_parallelism().map(|n| n.get()).unwrap_or(8);
    for depth in 0..b.depth {
        if frontier.is_empty() {
            break;
        }
        let last_level = depth + 1 == b.depth;
        let chunk = (frontier.len() + nthreads - 1) / nthreads;
        let seen_ref = &seen;
        // development aid: RSV_DUMP_KEYS=<file> writes (canonical key, initial state, history) of every successor of the last level
        let dump: Option<std::sync::Mutex<std::fs::File>> = if last_level { std::env::var("RSV_DUMP_KEYS").ok().map(|p| std::sync::Mutex::new(std::fs::OpenOptions::new().create(true).append(true).open(p).expect("dump file"))) } else { None };
        let dump = &dump;
        let results: Vec<(Vec<Item>, usize, Stats, Vec<Found>)> = std::thread::scope(|sc| {
            let handles: Vec<_> = frontier
                .chunks(chunk.max(1))
                .map(|items| {
                    sc.spawn(move || {
                        crate::pool::install_panic_recorder_thread();
                        let mut out: Vec<Item> = vec![];
                        let mut new_last: usize = 0;
                        let mut st = Stats::default();
                        let mut fnd: Vec<Found> = vec![];
                        for it in items {
                            if crate::sched_ops::real_vehicles(&it.s).len() > b.menu.max_real || crate::sched_ops::dummies(&it.s).len() > b.menu.max_dummies {
                                st.not_expanded_over_cap += 1;
                                continue;
                            }
                            let pre_key = schedule_key(&it.s);
                            let pre_caches = caches_key(&it.s);
                            let pre_ref = extract(a, &it.s);
                            for op in enumerate(a, &it.s, &b.menu) {
                                let e = st.per_op.entry(op.kind()).or_insert((0, 0, 0));
                                match apply(a, &it.s, &op) {
                                    StepResult::Ok(n, ret) => {
                                        e.0 += 1;
                                        st.transitions += 1;
                                        let k = schedule_key(&n);
                                        if k != pre_key {
                                            st.changed += 1;
                                        }
                                        let mut viol = check_step(prop, a, arena_id, Some((&it.s, &pre_ref)), Some(&op), &n, &ret, &mut st);
                                        if prop == "C13" && (schedule_key(&it.s) != pre_key || caches_key(&it.s) != pre_caches) {
                                            viol.push(("input-schedule-modified".into(), "the schedule the operation was called on changed".into()));
                                        }
                                        for (c, d) in viol {
                                            if fnd.len() < 2000 {
                                                let mut h = it.history.clone();
                                                h.push(op.clone());
                                                fnd.push(Found { arena: arena_id, init: it.init, history: h, clause: c, detail: d });
                                            }
                                        }
                                        let rk = ranked_key(&n);
                                        if let Some(f) = dump.as_ref() {
                                            use std::io::Write;
                                            let mut h = it.history.clone();
                                            h.push(op.clone());
                                            let _ = writeln!(f.lock().unwrap(), "{:x}\t{:x}\t{}\t{}", key128(&rk), key128(&ranked_key(&it.s)), it.init, serde_json::to_string(&h.iter().map(|o| o.to_json(a)).collect::<Vec<_>>()).unwrap());
                                        }
                                        if seen_ref.insert(key128(&rk)) {
                                            if last_level {
                                                // states of the last level are only counted, never expanded
                                                new_last += 1;
                                            } else {
                                                let mut h = it.history.clone();
                                                h.push(op.clone());
                                                out.push(Item { s: n, init: it.init, history: h });
                                            }
                                        }
                                    }
                                    StepResult::Err(_) => {
                                        e.1 += 1;
                                        st.rejected += 1;
                                        if prop == "C13" && (schedule_key(&it.s) != pre_key || caches_key(&it.s) != pre_caches) {
                                            let mut h = it.history.clone();
                                            h.push(op.clone());
                                            fnd.push(Found { arena: arena_id, init: it.init, history: h, clause: "rejected-call-left-trace".into(), detail: "a call that returned Err changed the input schedule".into() });
                                        }
                                    }
                                    StepResult::Panic(site, msg) => {
                                        e.2 += 1;
                                        st.panics += 1;
                                        let arithmetic = msg.contains("subtract") || msg.contains("overflow") || msg.contains("Cannot subtract");
                                        if prop == "C13" || (prop == "C09" && arithmetic) {
                                            let mut h = it.history.clone();
                                            h.push(op.clone());
                                            let short: String = msg.chars().take(80).collect();
                                            fnd.push(Found { arena: arena_id, init: it.init, history: h, clause: format!("panic:{}:{}:{}", op.kind(), site_without_line(&site), short), detail: format!("{} panicked at {}: {}", op.kind(), site, short) });
                                        }
                                    }
                                }
                            }
                        }
                        (out, new_last, st, fnd)
                    })
                })
                .collect();
            handles.into_iter().map(|h| h.join().expect("explorer thread")).collect()
        });
        let mut next: Vec<Item> = vec![];
        let mut last_new = 0usize;
        for (out, new_last, st, fnd) in results {
            last_new += new_last;
            stats.transitions += st.transitions;
            stats.rejected += st.rejected;
            stats.panics += st.panics;
            stats.changed += st.changed;
            stats.differential_checked += st.differential_checked;
            stats.differential_skipped += st.differential_skipped;
            stats.not_expanded_over_cap += st.not_expanded_over_cap;
            for (k, (o, e, p)) in st.per_op {
                let x = stats.per_op.entry(k).or_insert((0, 0, 0));
                x.0 += o;
                x.1 += e;
                x.2 += p;
            }
            found.extend(fnd);
            next.extend(out);
        }
        stats.states += next.len() + last_new;
        stats.states_per_depth.push(next.len() + last_new);
        frontier = next;
    }
}

fn history_json(a: &Arena, f: &Found) -> Value {
    json!({
        "engine": "sched-mc",
        "arena": a.name,
        "arena_code": a.code,
        "input": a.input,
        "hash_seed": 1,
        "initial_state": f.init,
        "operations": f.history.iter().map(|o| o.to_json(a)).collect::<Vec<_>>(),
        "failing_clause": f.clause,
        "detail": f.detail,
    })
}

pub fn load_arena(i: usize) -> Arena {
    let def = &ARENAS[i];
    Arena::load(def.name, def.code)
}

/// replay a recorded history on a fresh arena; returns the violations (clause, detail) seen at the last step
pub fn replay_history(prop: &str, r: &Value, verbose: bool) -> Result<Vec<(String, String)>, String> {
    let code = r.get("arena_code").and_then(|x| x.as_str()).ok_or("no arena_code")?.to_string();
    let name = r.get("arena").and_then(|x| x.as_str()).unwrap_or("replay").to_string();
    let input = r.get("input").cloned().ok_or("no input")?;
    let a = Arena::from_input(&name, &code, input);
    if r.get("failing_clause").and_then(|x| x.as_str()).map(|c| c.starts_with("panic:initial-state:")).unwrap_or(false) {
        return Ok(a.init_failures.iter().map(|(what, site, msg)| {
            let short: String = msg.chars().take(80).collect();
            (format!("panic:initial-state:{}:{}", site_without_line(site), short), format!("{} panicked at {}: {}", what, site, short))
        }).collect());
    }
    let init = r.get("initial_state").and_then(|x| x.as_str()).unwrap_or("empty");
    let mut s = initial_states(&a).into_iter().find(|(n, _)| *n == init).ok_or("unknown initial state")?.1;
    let ops: Vec<Op> = r.get("operations").and_then(|x| x.as_array()).ok_or("no operations")?.iter().map(|j| Op::from_json(&a, j)).collect::<Result<_, _>>()?;
    let mut st = Stats::default();
    crate::pool::install_panic_recorder_thread();
    // a violation may already be present in the initial state (empty history)
    let mut last: Vec<(String, String)> = check_step(prop, &a, usize::MAX - 1, None, None, &s, &Ret::None, &mut st);
    for (i, op) in ops.iter().enumerate() {
        let pre_ref = extract(&a, &s);
        match apply(&a, &s, op) {
            StepResult::Ok(n, ret) => {
                last = check_step(prop, &a, usize::MAX - 1, Some((&s, &pre_ref)), Some(op), &n, &ret, &mut st);
                if verbose {
                    crate::say!("  step {} {} -> Ok ({} violations)", i + 1, op.to_json(&a), last.len());
                }
                s = n;
            }
            StepResult::Err(e) => {
                if verbose {
                    crate::say!("  step {} {} -> Err({})", i + 1, op.to_json(&a), e);
                }
                last = vec![];
                if i + 1 < ops.len() {
                    return Err("history diverged: a step that must succeed returned Err".into());
                }
            }
            StepResult::Panic(site, msg) => {
                let short: String = msg.chars().take(80).collect();
                if verbose {
                    crate::say!("  step {} {} -> panic at {}: {}", i + 1, op.to_json(&a), site, short);
                }
                last = vec![(format!("panic:{}:{}:{}", op.kind(), site_without_line(&site), short), format!("{} panicked at {}: {}", op.kind(), site, short))];
                if i + 1 < ops.len() {
                    return Err("history diverged: a step that must succeed panicked".into());
                }
            }
        }
    }
    Ok(last)
}

pub fn check(prop: &str, tier: &str) -> i32 {
    let mut report = Report::new(prop, tier, "model_checking");
    let plans = plans(tier);
    let mut total = Stats::default();
    let mut found: Vec<Found> = vec![];
    let mut arenas: Vec<Arena> = vec![];
    let mut per_arena = vec![];
    for (pi, b) in plans.iter().enumerate() {
        // determinism cross-check (same exploration twice, identical counts) on the first plan of the thorough tier
        let runs = if tier == "thorough" && pi == 0 { 2 } else { 1 };
        for &i in &b.arenas {
            if !arenas.iter().any(|a| a.name == ARENAS[i].name) {
                arenas.push(load_arena(i));
            }
            let a = arenas.iter().find(|a| a.name == ARENAS[i].name).unwrap();
            let mut counts: Vec<(usize, usize)> = vec![];
            for run in 0..runs {
                let mut st = Stats::default();
                let mut f = vec![];
                explore(prop, a, i, b, &mut st, &mut f);
                counts.push((st.states, st.transitions));
                if run == 0 {
                    per_arena.push(json!({"plan": b.name, "depth": b.depth, "arena": a.name, "why": ARENAS[i].why, "code": a.code, "states": st.states, "transitions": st.transitions, "rejected_calls": st.rejected, "panicking_calls": st.panics, "states_per_depth": st.states_per_depth, "not_expanded_over_cap": st.not_expanded_over_cap}));
                    total.states += st.states;
                    total.transitions += st.transitions;
                    total.rejected += st.rejected;
                    total.panics += st.panics;
                    total.changed += st.changed;
                    total.differential_checked += st.differential_checked;
                    total.differential_skipped += st.differential_skipped;
                    for (k, (o, e, p)) in st.per_op {
                        let x = total.per_op.entry(k).or_insert((0, 0, 0));
                        x.0 += o;
                        x.1 += e;
                        x.2 += p;
                    }
                    found.extend(f);
                }
            }
            if counts.iter().any(|c| *c != counts[0]) {
                machinery_error(prop, &format!("two runs of the same exploration disagree on arena {}: {:?}", a.name, counts));
            }
        }
    }
    let b = &plans[0];
    // violations: one per clause first (shortest history), then others
    found.sort_by_key(|f| (f.history.len(), f.arena));
    let mut by_clause: BTreeMap<String, usize> = BTreeMap::new();
    let mut seen_clause = BTreeSet::new();
    let mut ordered: Vec<&Found> = vec![];
    for f in &found {
        *by_clause.entry(f.clause.clone()).or_insert(0) += 1;
        if seen_clause.insert(f.clause.clone()) {
            ordered.push(f);
        }
    }
    // a few more per clause (different histories), capped
    let mut per_clause_kept: BTreeMap<String, usize> = BTreeMap::new();
    for f in &found {
        if ordered.len() >= 12 {
            break;
        }
        if !ordered.iter().any(|g| std::ptr::eq(*g, f)) {
            let c = per_clause_kept.entry(f.clause.clone()).or_insert(1);
            if *c < 2 {
                *c += 1;
                ordered.push(f);
            }
        }
    }
    let mut confirmed = 0;
    for f in ordered {
        let a = arenas.iter().find(|a| a.name == ARENAS[f.arena].name).unwrap();
        let rj = history_json(a, f);
        if confirmed < 5 {
            let r1 = replay_quiet(prop, &rj);
            let r2 = replay_quiet(prop, &rj);
            if r1 != r2 {
                machinery_error(prop, &format!("replay diverged for {}: {:?} vs {:?}", f.clause, r1, r2));
            }
            match r1 {
                Ok(v) if v.iter().any(|(c, _)| *c == f.clause) => {}
                other => {
                    let _ = std::fs::write("/verif/target/last-unreproduced.json", serde_json::to_string_pretty(&rj).unwrap());
                    machinery_error(prop, &format!("violation {} did not reproduce on replay: {:?} (history in /verif/target/last-unreproduced.json)", f.clause, other))
                }
            }
            confirmed += 1;
        }
        let ops_txt = serde_json::to_string(&rj["operations"]).unwrap();
        let sig = if f.clause.starts_with("panic:") { f.clause.clone() } else { format!("{}:{}:{}:{}", f.clause, a.name, f.init, digest(&ops_txt)) };
        report.violation(Violation { signature: sig, what: format!("{}: {} -- arena {} from {} after {} operation(s): {}", f.clause, f.detail, a.name, f.init, f.history.len(), ops_txt), replay: rj });
    }
    report.violation_total = found.len();

    report.cov("states", json!(total.states));
    report.cov("transitions", json!(total.transitions));
    report.cov("traces_validated_against_impl", json!(total.transitions));
    report.cov("evaluations", json!(total.transitions + total.rejected + total.panics));
    report.cov("distinct_nontrivial", json!(total.changed));
    report.cov("rule", json!("The implementation is the model: every state is a real Schedule, every transition a real call. From each arena's three initial states (empty, min-cost-flow start, start + improve_depots) all sequences of public modifications with all valid arguments up to the depth bound; level-synchronous BFS with canonical-key de-duplication, every generated transition checked before de-duplication. Non-trivial = transitions whose result differs from the pre-state."));
    report.cov("plans", json!(plans.iter().map(|b| json!({"name": b.name, "depth": b.depth, "arenas": b.arenas.iter().map(|i| ARENAS[*i].name).collect::<Vec<_>>(), "max_real_vehicles_expanded": b.menu.max_real, "max_dummies_expanded": b.menu.max_dummies, "path_chain_len": b.menu.chain_len, "depot_plus_chain_shapes": b.menu.depot_shapes, "depot_chain_depot_for_single_nodes": b.menu.both_depots})).collect::<Vec<_>>()));
    report.cov("note_on_counts", json!("states and transitions are summed over plans and arenas; the plans overlap in their shallow levels"));
    report.cov("arenas", json!(per_arena));
    report.cov("rejected_calls", json!(total.rejected));
    report.cov("panicking_calls", json!(total.panics));
    report.cov("calls_per_operation_ok_err_panic", json!(total.per_op.iter().map(|(k, v)| (k.to_string(), json!([v.0, v.1, v.2]))).collect::<serde_json::Map<_, _>>()));
    report.cov("violations_by_clause", json!(by_clause));
    if prop == "C09" {
        report.cov("tour_differential_checked", json!(total.differential_checked));
        report.cov("tour_differential_skipped_no_scratch_twin", json!(total.differential_skipped));
    }
    report.cov("exhaustive", json!(true));
    report.cov("runs_compared", json!(if tier == "thorough" { "first plan explored twice, identical state and transition counts required" } else { "single run" }));
    let sample_arena = &arenas[0];
    let sample_ops: Vec<Value> = enumerate(sample_arena, &initial_states(sample_arena).last().unwrap().1, &b.menu).iter().take(6).map(|o| o.to_json(sample_arena)).collect();
    report.cov("samples", json!([{"arena": sample_arena.name, "initial_state": "min_cost_flow", "first_operations_of_the_menu": sample_ops}]));
    report.assume("valid-argument domain as tabulated in DESIGN.md (C13); arguments outside it are not generated");
    report.assume("exploration is bounded: depth, arenas, vehicle and dummy caps as stated; nothing is claimed beyond them");
    report.assume("reachability used by the reference comes from spec (documented rule); its agreement with Network::can_reach is C17's claim");
    report.finish()
}

fn replay_quiet(prop: &str, r: &Value) -> Result<Vec<(String, String)>, String> {
    // suppress the per-step prints of replay_history by redirecting nothing: output is short; keep it simple
    replay_history(prop, r, false)
}

pub fn replay(prop: &str, path: &str) -> i32 {
    let txt = std::fs::read_to_string(path).unwrap_or_else(|e| machinery_error(prop, &format!("cannot read {}: {}", path, e)));
    let r: Value = serde_json::from_str(&txt).unwrap_or_else(|e| machinery_error(prop, &format!("bad replay file: {}", e)));
    match replay_history(prop, &r, true) {
        Ok(v) if v.is_empty() => {
            crate::say!("replay passes");
            0
        }
        Ok(v) => {
            for (c, d) in v {
                crate::say!("  {}: {}", c, d);
            }
            crate::say!("VIOLATION property={} replay={}", prop, path);
            1
        }
        Err(e) => machinery_error(prop, &e),
    }
}
