//! Oracles on schedules and on single modification steps (C09, C10, C13), written against the
//! property statements; reachability and figures come from `spec` through the arena's node map.
#![allow(dead_code)]
use crate::arena::Arena;
use crate::c17::SNode;
use crate::sched_ops::{Op, Ret};
use crate::spec::Kind;
use model::base_types::{Distance, NodeIdx, VehicleIdx, VehicleTypeIdx, INF_DISTANCE};
use solution::Schedule;
use std::collections::{BTreeMap, BTreeSet};
use std::sync::Mutex;

pub type Viol = Vec<(String, String)>;

// ------------------------------------------------------------------------------------------------
// reference view of a schedule
// ------------------------------------------------------------------------------------------------

#[derive(Clone, Debug, PartialEq, Eq)]
pub struct RefState {
    /// real vehicles: type and node list (with depots)
    pub tours: BTreeMap<VehicleIdx, (VehicleTypeIdx, Vec<NodeIdx>)>,
    pub dummies: BTreeMap<VehicleIdx, Vec<NodeIdx>>,
    /// ordered formations of all coverable nodes
    pub formations: BTreeMap<NodeIdx, Vec<VehicleIdx>>,
}

pub fn extract(a: &Arena, s: &Schedule) -> RefState {
    let mut tours = BTreeMap::new();
    for (v, t) in s.get_tours().iter() {
        tours.insert(*v, (s.vehicle_type_of(*v).unwrap_or(a.types[0]), t.all_nodes_iter().collect::<Vec<_>>()));
    }
    let mut dummies = BTreeMap::new();
    for d in s.dummy_iter() {
        dummies.insert(d, s.tour_of(d).map(|t| t.all_nodes_iter().collect()).unwrap_or_default());
    }
    let mut formations = BTreeMap::new();
    for &n in &a.acts {
        formations.insert(n, s.train_formation_of(n).ids());
    }
    RefState { tours, dummies, formations }
}

impl RefState {
    pub fn nodes_of(&self, v: VehicleIdx) -> Option<&Vec<NodeIdx>> {
        self.tours.get(&v).map(|x| &x.1).or_else(|| self.dummies.get(&v))
    }
}

/// reference insertion: longest prefix reaching the path ++ path ++ longest suffix the path reaches
/// returns (new node list, dropped nodes)
pub fn ref_insert(a: &Arena, tour: &[NodeIdx], path: &[NodeIdx]) -> (Vec<NodeIdx>, Vec<NodeIdx>) {
    let first = path[0];
    let last = *path.last().unwrap();
    let prefix_len = if matches!(a.snode(first), SNode::Start(_)) {
        0
    } else {
        (0..=tour.len()).rev().find(|&k| k == 0 || a.reach(tour[k - 1], first)).unwrap_or(0)
    };
    let suffix_start = if matches!(a.snode(last), SNode::End(_)) {
        tour.len()
    } else {
        (0..=tour.len()).find(|&k| k == tour.len() || a.reach(last, tour[k])).unwrap_or(tour.len())
    };
    let suffix_start = suffix_start.max(prefix_len);
    let mut out: Vec<NodeIdx> = tour[..prefix_len].to_vec();
    out.extend(path.iter().copied());
    out.extend(tour[suffix_start..].iter().copied());
    (out, tour[prefix_len..suffix_start].to_vec())
}

// ------------------------------------------------------------------------------------------------
// C10: structural invariants of one schedule
// ------------------------------------------------------------------------------------------------

pub fn c10(a: &Arena, s: &Schedule) -> Viol {
    let mut v: Viol = vec![];
    let mut fail = |c: &str, d: String| v.push((c.to_string(), d));
    let st = extract(a, s);
    let name = |n: NodeIdx| a.nw.node(n).id().to_string();

    for (veh, (vt, nodes)) in &st.tours {
        if nodes.len() < 3 {
            fail("tour-shape", format!("{} has the node list {:?}", veh, nodes.iter().map(|n| name(*n)).collect::<Vec<_>>()));
            continue;
        }
        if !matches!(a.snode(nodes[0]), SNode::Start(_)) {
            fail("tour-shape", format!("{} does not start at a start depot but at {}", veh, name(nodes[0])));
        }
        if !matches!(a.snode(*nodes.last().unwrap()), SNode::End(_)) {
            fail("tour-shape", format!("{} does not end at an end depot but at {}", veh, name(*nodes.last().unwrap())));
        }
        for &n in &nodes[1..nodes.len() - 1] {
            match a.snode(n) {
                SNode::Act(i) => {
                    if let Some(t) = a.spec.acts[i].vt() {
                        if Some(&t) != a.type_of.get(vt) {
                            fail("tour-type", format!("{} of type {} serves {} of another type", veh, vt, name(n)));
                        }
                    }
                }
                _ => fail("tour-shape", format!("{} has the depot {} in the middle", veh, name(n))),
            }
        }
        for w in nodes.windows(2) {
            if !a.reach(w[0], w[1]) {
                fail("tour-unconnectable", format!("{}: {} cannot reach {}", veh, name(w[0]), name(w[1])));
            }
        }
    }
    // formation <-> tours
    for (&n, f) in &st.formations {
        let fs: BTreeSet<VehicleIdx> = f.iter().copied().collect();
        if fs.len() != f.len() {
            fail("formation-duplicate", format!("formation of {} is {:?}", name(n), f));
        }
        let ts: BTreeSet<VehicleIdx> = st.tours.iter().filter(|(_, (_, ns))| ns.contains(&n)).map(|(v, _)| *v).collect();
        if fs != ts {
            fail("formation-mismatch", format!("{}: formation {:?}, tours containing it {:?}", name(n), fs, ts));
        }
        if let Some(i) = a.act_idx(n) {
            if let Some(l) = a.spec.limit(i) {
                if f.len() as i64 > l {
                    fail("formation-limit", format!("{} hosts {} vehicles, limit {}", name(n), f.len(), l));
                }
            }
        }
    }
    // depot limits (overflow exempt)
    let mut per: BTreeMap<(NodeIdx, VehicleTypeIdx), i64> = BTreeMap::new();
    let mut tot: BTreeMap<NodeIdx, i64> = BTreeMap::new();
    for (_, (vt, nodes)) in &st.tours {
        if let Some(&sd) = nodes.first() {
            *per.entry((sd, *vt)).or_insert(0) += 1;
            *tot.entry(sd).or_insert(0) += 1;
        }
    }
    let spec_depot = |sd: NodeIdx| -> Option<&crate::spec::Depot> {
        let id = a.nw.get_depot(a.nw.get_depot_idx(sd)).id().to_string();
        a.spec.depot_by_id(&id).map(|i| &a.spec.depots[i])
    };
    for ((sd, vt), n) in &per {
        if let Some(d) = spec_depot(*sd) {
            if let Some(cap) = d.capacity_for(a.type_of[vt]) {
                if *n > cap {
                    fail("depot-type-capacity", format!("{} vehicles of type {} start at {}, capacity {}", n, vt, name(*sd), cap));
                }
            }
        }
    }
    for (sd, n) in &tot {
        if let Some(d) = spec_depot(*sd) {
            if let Some(cap) = d.total {
                if *n > cap {
                    fail("depot-total-capacity", format!("{} vehicles start at {}, capacity {}", n, name(*sd), cap));
                }
            }
        }
    }
    // listings
    let mut listed: Vec<VehicleIdx> = vec![];
    for &vt in &a.types {
        let l: Vec<VehicleIdx> = s.vehicles_iter(vt).collect();
        for w in l.windows(2) {
            if w[0] >= w[1] {
                fail("listing-unsorted", format!("vehicles of type {} listed as {:?}", vt, l));
            }
        }
        for &x in &l {
            if s.vehicle_type_of(x).ok() != Some(vt) || !s.is_vehicle(x) {
                fail("listing-mismatch", format!("{} is listed under type {} but is {:?}", x, vt, s.vehicle_type_of(x)));
            }
        }
        listed.extend(l);
    }
    let ls: BTreeSet<VehicleIdx> = listed.iter().copied().collect();
    let ks: BTreeSet<VehicleIdx> = st.tours.keys().copied().collect();
    if ls != ks || listed.len() != ks.len() || s.number_of_vehicles() != ks.len() {
        fail("listing-mismatch", format!("listed vehicles {:?}, stored tours {:?}, number_of_vehicles {}", listed, ks, s.number_of_vehicles()));
    }
    let dl: Vec<VehicleIdx> = s.dummy_iter().collect();
    for w in dl.windows(2) {
        if w[0] >= w[1] {
            fail("listing-unsorted", format!("dummies listed as {:?}", dl));
        }
    }
    for &d in &dl {
        if !s.is_dummy(d) || s.tour_of(d).is_err() {
            fail("listing-mismatch", format!("listed dummy {} has no dummy tour", d));
        }
    }
    if dl.len() != s.number_of_dummy_tours() {
        fail("listing-mismatch", format!("{} dummies listed, {} dummy tours stored", dl.len(), s.number_of_dummy_tours()));
    }
    // rotation cycles
    for &vt in &a.types {
        let tr = s.next_day_transition_of(vt);
        let mut count: BTreeMap<VehicleIdx, usize> = BTreeMap::new();
        for c in tr.cycles_iter() {
            for x in c.iter() {
                *count.entry(x).or_insert(0) += 1;
            }
        }
        let fleet: Vec<VehicleIdx> = st.tours.iter().filter(|(_, (t, _))| *t == vt).map(|(v, _)| *v).collect();
        for &x in &fleet {
            match count.get(&x) {
                Some(1) => {
                    let r = std::panic::catch_unwind(std::panic::AssertUnwindSafe(|| tr.get_successor_of(x)));
                    match r {
                        Ok(succ) => {
                            let same = tr.cycles_iter().any(|c| c.iter().any(|y| y == x) && c.iter().any(|y| y == succ));
                            if !same {
                                fail("cycle-successor", format!("successor of {} is {} which is not in its cycle", x, succ));
                            }
                        }
                        Err(_) => {
                            let _ = crate::pool::take_last_panic();
                            fail("cycle-successor", format!("get_successor_of({}) panics", x));
                        }
                    }
                }
                Some(n) => fail("cycle-membership", format!("{} is in {} rotation cycles of type {}", x, n, vt)),
                None => fail("cycle-membership", format!("{} is in no rotation cycle of type {}", x, vt)),
            }
        }
        for x in count.keys() {
            if !fleet.contains(x) {
                fail("cycle-membership", format!("rotation cycles of type {} contain {} which is not a vehicle of that type", vt, x));
            }
        }
    }
    v
}

// ------------------------------------------------------------------------------------------------
// C09: caches vs recomputation
// ------------------------------------------------------------------------------------------------

#[derive(Clone, Debug, PartialEq)]
pub struct Figures {
    pub service: Distance,
    pub dead_head: Distance,
    pub useful: Option<u64>,
    pub costs: u64,
    pub visits: bool,
}

fn figures_of(t: &solution::tour::Tour) -> Figures {
    Figures { service: t.service_distance(), dead_head: t.dead_head_distance(), useful: t.useful_duration().in_sec().ok(), costs: t.costs(), visits: t.visits_maintenance() }
}

static FRESH: Mutex<Option<BTreeMap<(usize, Vec<NodeIdx>), Option<Figures>>>> = Mutex::new(None);

/// figures of a tour constructed from scratch by the real constructor path (a one-vehicle schedule)
fn fresh_figures(a: &Arena, arena_id: usize, vt: VehicleTypeIdx, nodes: &[NodeIdx]) -> Option<Figures> {
    let key = (arena_id, nodes.to_vec());
    if let Some(m) = FRESH.lock().unwrap().as_ref() {
        if let Some(f) = m.get(&key) {
            return f.clone();
        }
    }
    let r = std::panic::catch_unwind(std::panic::AssertUnwindSafe(|| {
        let e = Schedule::empty(a.nw.clone());
        match e.spawn_vehicle_for_path(vt, nodes.to_vec()) {
            Ok((s, v)) => {
                let t = s.tour_of(v).unwrap();
                let got: Vec<NodeIdx> = t.all_nodes_iter().collect();
                if got == nodes {
                    Some(figures_of(t))
                } else {
                    None // the depot was not available in an empty schedule: no from-scratch twin
                }
            }
            Err(_) => None,
        }
    }));
    let f = r.unwrap_or_else(|_| {
        let _ = crate::pool::take_last_panic();
        None
    });
    let mut g = FRESH.lock().unwrap();
    g.get_or_insert_with(BTreeMap::new).insert(key, f.clone());
    f
}

/// figures computed from the input alone; `None` components where the overflow depot makes the
/// value a convention of the implementation
pub struct SpecFigures {
    pub service: i64,
    pub dead_head: Option<i64>,
    pub useful: i64,
    pub costs: Option<i64>,
    pub visits: bool,
}

pub fn spec_figures(a: &Arena, nodes: &[NodeIdx]) -> SpecFigures {
    let sp = &a.spec;
    let mut f = SpecFigures { service: 0, dead_head: Some(0), useful: 0, costs: Some(0), visits: false };
    for &n in nodes {
        if let Some(i) = a.act_idx(n) {
            let act = &sp.acts[i];
            f.useful += act.end - act.start;
            match act.kind {
                Kind::Seg { dist, .. } => {
                    f.service += dist;
                    f.costs = f.costs.map(|c| c + (act.end - act.start) * sp.cost_service);
                }
                Kind::Slot { .. } => {
                    f.visits = true;
                    f.costs = f.costs.map(|c| c + (act.end - act.start) * sp.cost_maint);
                }
            }
        }
    }
    // location of the end of x / start of y
    let end_loc = |n: NodeIdx| -> Option<usize> {
        match a.snode(n) {
            SNode::Act(i) => Some(sp.acts[i].dest),
            _ => a.depot_loc[&n],
        }
    };
    let start_loc = |n: NodeIdx| -> Option<usize> {
        match a.snode(n) {
            SNode::Act(i) => Some(sp.acts[i].origin),
            _ => a.depot_loc[&n],
        }
    };
    for w in nodes.windows(2) {
        match (end_loc(w[0]), start_loc(w[1])) {
            (Some(x), Some(y)) => {
                f.dead_head = f.dead_head.map(|d| d + sp.dh_dist[x][y]);
                let t = sp.dh_time[x][y];
                let idle = match (a.snode(w[0]), a.snode(w[1])) {
                    (SNode::Act(i), SNode::Act(j)) => (sp.acts[j].start - sp.acts[i].end - t).max(0),
                    _ => 0,
                };
                f.costs = f.costs.map(|c| c + t * sp.cost_dh + idle * sp.cost_idle);
            }
            _ => {
                f.dead_head = None;
                f.costs = None;
            }
        }
    }
    f
}

pub struct C09Stats {
    pub differential_checked: usize,
    pub differential_skipped: usize,
}

pub fn c09(a: &Arena, arena_id: usize, s: &Schedule, stats: &mut C09Stats) -> Viol {
    let mut v: Viol = vec![];
    let mut fail = |c: &str, d: String| v.push((c.to_string(), d));
    let sp = &a.spec;
    let st = extract(a, s);
    let names = |ns: &Vec<NodeIdx>| ns.iter().map(|n| a.nw.node(*n).id().to_string()).collect::<Vec<_>>().join(" - ");

    let mut sum_costs: u64 = 0;
    let mut counter_of: BTreeMap<VehicleIdx, i64> = BTreeMap::new();
    for (veh, (vt, nodes)) in &st.tours {
        let t = s.tour_of(*veh).unwrap();
        let got = figures_of(t);
        sum_costs += got.costs;
        // (i) differential against the from-scratch constructor
        match fresh_figures(a, arena_id, *vt, nodes) {
            Some(fr) => {
                stats.differential_checked += 1;
                if fr != got {
                    fail("tour-cache-vs-scratch", format!("{} [{}]: cached {:?}, from scratch {:?}", veh, names(nodes), got, fr));
                }
            }
            None => stats.differential_skipped += 1,
        }
        // (ii) independent figures
        let sf = spec_figures(a, nodes);
        if got.service != Distance::Distance(sf.service as u64) {
            fail("tour-service-distance", format!("{} [{}]: cached {:?}, recomputed {}", veh, names(nodes), got.service, sf.service));
        }
        if got.useful != Some(sf.useful as u64) {
            fail("tour-useful-duration", format!("{} [{}]: cached {:?}, recomputed {}", veh, names(nodes), got.useful, sf.useful));
        }
        if got.visits != sf.visits {
            fail("tour-visits-maintenance", format!("{} [{}]: cached {}, recomputed {}", veh, names(nodes), got.visits, sf.visits));
        }
        match sf.dead_head {
            Some(d) => {
                if got.dead_head != Distance::Distance(d as u64) {
                    fail("tour-dead-head-distance", format!("{} [{}]: cached {:?}, recomputed {}", veh, names(nodes), got.dead_head, d));
                }
            }
            None => {
                if got.dead_head != Distance::Infinity {
                    fail("tour-dead-head-distance", format!("{} [{}]: cached {:?} although the tour uses the overflow depot (infinitely distant)", veh, names(nodes), got.dead_head));
                }
            }
        }
        if let Some(c) = sf.costs {
            if got.costs as i64 != c {
                fail("tour-costs", format!("{} [{}]: cached {}, recomputed {}", veh, names(nodes), got.costs, c));
            }
        }
        // maintenance counter from recomputed figures (INF_DISTANCE stands in for an infinite tour, as documented in base_types)
        let total = match sf.dead_head {
            Some(d) => sf.service + d,
            None => INF_DISTANCE as i64,
        };
        counter_of.insert(*veh, total - if sf.visits { sp.max_dist } else { 0 });
    }
    // dummy tours: figures that are defined without depots
    for (d, nodes) in &st.dummies {
        let t = s.tour_of(*d).unwrap();
        let got = figures_of(t);
        let sf = spec_figures(a, nodes);
        if got.service != Distance::Distance(sf.service as u64) || got.useful != Some(sf.useful as u64) || got.visits != sf.visits {
            fail("dummy-tour-cache", format!("{} [{}]: cached {:?}, recomputed service {} useful {} visits {}", d, names(nodes), got, sf.service, sf.useful, sf.visits));
        }
        if let (Some(dh), Some(c)) = (sf.dead_head, sf.costs) {
            if got.dead_head != Distance::Distance(dh as u64) || got.costs as i64 != c {
                fail("dummy-tour-cache", format!("{} [{}]: cached dead-head {:?} costs {}, recomputed {} and {}", d, names(nodes), got.dead_head, got.costs, dh, c));
            }
        }
    }
    // schedule costs
    let expect_costs = sum_costs + sp.n_segs as u64 * sp.cost_staff as u64;
    if s.costs() != expect_costs {
        fail("schedule-costs", format!("cached {}, sum of tour costs plus staff term {}", s.costs(), expect_costs));
    }
    // unserved
    let (mut up, mut us) = (0i64, 0i64);
    for (&n, f) in &st.formations {
        if let Some(i) = a.act_idx(n) {
            if let Kind::Seg { pax, seated, .. } = sp.acts[i].kind {
                let (mut cap, mut seats) = (0, 0);
                for x in f {
                    if let Some((vt, _)) = st.tours.get(x) {
                        let t = &sp.types[a.type_of[vt]];
                        cap += t.capacity;
                        seats += t.seats;
                    }
                }
                up += (pax - cap).max(0);
                us += (seated - seats).max(0);
            }
        }
    }
    let got_u = s.unserved_passengers();
    if (got_u.0 as i64, got_u.1 as i64) != (up, us) {
        fail("schedule-unserved", format!("cached {:?}, recomputed ({}, {})", got_u, up, us));
    }
    // maintenance violation: per cycle counters, totals, schedule figure
    let mut total_violation = 0i64;
    for &vt in &a.types {
        let tr = s.next_day_transition_of(vt);
        let mut tv = 0i64;
        let mut tc = 0i64;
        for c in tr.cycles_iter() {
            let vs: Vec<VehicleIdx> = c.iter().collect();
            if vs.is_empty() {
                if c.maintenance_counter() != 0 {
                    fail("cycle-counter", format!("empty cycle of type {} has counter {}", vt, c.maintenance_counter()));
                }
                continue;
            }
            let mut cnt = 0i64;
            let mut known = true;
            for (i, x) in vs.iter().enumerate() {
                match (counter_of.get(x), st.tours.get(x), st.tours.get(&vs[(i + 1) % vs.len()])) {
                    (Some(c0), Some((_, ns)), Some((_, nn))) => {
                        cnt += c0;
                        let e = a.depot_loc[ns.last().unwrap()];
                        let b = a.depot_loc[&nn[0]];
                        cnt += match (e, b) {
                            (Some(x), Some(y)) => sp.dh_dist[x][y],
                            _ => INF_DISTANCE as i64,
                        };
                    }
                    _ => known = false, // membership errors are C10's business
                }
            }
            if known {
                if c.maintenance_counter() != cnt {
                    fail("cycle-counter", format!("cycle {:?} of type {}: cached counter {}, recomputed {}", vs, vt, c.maintenance_counter(), cnt));
                }
                tv += cnt.max(0);
                tc += cnt;
            } else {
                tv += c.maintenance_counter().max(0);
                tc += c.maintenance_counter();
            }
        }
        if tr.maintenance_violation() != tv {
            fail("transition-violation", format!("type {}: cached violation {}, recomputed {}", vt, tr.maintenance_violation(), tv));
        }
        if tr.maintenance_counter() != tc {
            fail("transition-counter", format!("type {}: cached total counter {}, recomputed {}", vt, tr.maintenance_counter(), tc));
        }
        total_violation += tv;
    }
    if s.maintenance_violation() != total_violation {
        fail("schedule-violation", format!("cached {}, recomputed {}", s.maintenance_violation(), total_violation));
    }
    // spawn counts and balances
    for dep in a.nw.depots_iter() {
        let sd = a.nw.get_start_depot_node(dep);
        let ed = a.nw.get_end_depot_node(dep);
        let mut total = 0;
        for &vt in &a.types {
            let starts = st.tours.values().filter(|(t, ns)| *t == vt && ns.first() == Some(&sd)).count() as i64;
            let ends = st.tours.values().filter(|(t, ns)| *t == vt && ns.last() == Some(&ed)).count() as i64;
            total += starts;
            if s.number_of_vehicles_of_same_type_spawned_at(dep, vt) as i64 != starts {
                fail("depot-spawn-count", format!("depot {} type {}: cached {}, recomputed {}", a.nw.get_depot(dep).id(), vt, s.number_of_vehicles_of_same_type_spawned_at(dep, vt), starts));
            }
            if s.depot_balance(dep, vt) as i64 != starts - ends {
                fail("depot-balance", format!("depot {} type {}: cached balance {}, recomputed {}", a.nw.get_depot(dep).id(), vt, s.depot_balance(dep, vt), starts - ends));
            }
        }
        if s.number_of_vehicles_spawned_at(dep) as i64 != total {
            fail("depot-spawn-count", format!("depot {}: cached total {}, recomputed {}", a.nw.get_depot(dep).id(), s.number_of_vehicles_spawned_at(dep), total));
        }
    }
    v
}

// ------------------------------------------------------------------------------------------------
// C13: effect and frame of one step
// ------------------------------------------------------------------------------------------------

fn activities(a: &Arena, ns: &[NodeIdx]) -> Vec<NodeIdx> {
    ns.iter().copied().filter(|n| !a.is_depot(*n)).collect()
}

fn services(a: &Arena, ns: &[NodeIdx]) -> Vec<NodeIdx> {
    ns.iter().copied().filter(|n| a.is_service(*n)).collect()
}

fn slice_of(ns: &[NodeIdx], x: NodeIdx, y: NodeIdx) -> Option<(usize, usize)> {
    let i = ns.iter().position(|n| *n == x)?;
    let j = ns.iter().position(|n| *n == y)?;
    if i <= j {
        Some((i, j))
    } else {
        None
    }
}

fn without(ns: &[NodeIdx], gone: &[NodeIdx]) -> Vec<NodeIdx> {
    ns.iter().copied().filter(|n| !gone.contains(n)).collect()
}

/// expected formation after `p` hands the node to `r` (either may be absent / dummy)
fn formation_rule(before: &[VehicleIdx], after: &[VehicleIdx], p: Option<VehicleIdx>, r: Option<VehicleIdx>) -> Result<(), String> {
    let p = p.filter(|x| x.is_real());
    let r = r.filter(|x| x.is_real());
    let others_before: Vec<VehicleIdx> = before.iter().copied().filter(|x| Some(*x) != p && Some(*x) != r).collect();
    let others_after: Vec<VehicleIdx> = after.iter().copied().filter(|x| Some(*x) != p && Some(*x) != r).collect();
    if others_before != others_after {
        return Err(format!("other vehicles changed or reordered: {:?} -> {:?}", before, after));
    }
    if let Some(p) = p {
        if after.contains(&p) {
            return Err(format!("{} still in the formation: {:?} -> {:?}", p, before, after));
        }
    }
    match r {
        None => {}
        Some(r) => {
            if after.iter().filter(|x| **x == r).count() != 1 {
                return Err(format!("{} not exactly once in the formation: {:?} -> {:?}", r, before, after));
            }
            if !before.contains(&r) {
                match p {
                    Some(p) => {
                        // replacing vehicle takes the replaced one's position
                        let pos = before.iter().position(|x| *x == p);
                        if pos.is_some() && after.iter().position(|x| *x == r) != pos {
                            return Err(format!("{} did not take the position of {}: {:?} -> {:?}", r, p, before, after));
                        }
                    }
                    None => {
                        if after.last() != Some(&r) {
                            return Err(format!("{} was not added at the tail: {:?} -> {:?}", r, before, after));
                        }
                    }
                }
            }
        }
    }
    Ok(())
}

pub fn c13(a: &Arena, pre: &RefState, op: &Op, post: &RefState, ret: &Ret) -> Viol {
    let mut v: Viol = vec![];
    let mut fail = |c: &str, d: String| v.push((c.to_string(), d));
    let name = |n: NodeIdx| a.nw.node(n).id().to_string();
    let names = |ns: &[NodeIdx]| ns.iter().map(|n| name(*n)).collect::<Vec<_>>().join(" - ");

    // vehicles whose tours may change, nodes whose formations may change
    let mut touched_vehicles: BTreeSet<VehicleIdx> = BTreeSet::new();
    let mut touched_nodes: BTreeSet<NodeIdx> = BTreeSet::new();
    let new_ids: Vec<VehicleIdx> = post.tours.keys().chain(post.dummies.keys()).copied().filter(|x| !pre.tours.contains_key(x) && !pre.dummies.contains_key(x)).collect();
    let mut expected_new: BTreeSet<VehicleIdx> = BTreeSet::new();

    // helper: the one new dummy tour that must hold exactly `svc` (if non-empty)
    let mut expect_dummy_for = |svc: &[NodeIdx], returned: Option<Option<VehicleIdx>>, fail: &mut dyn FnMut(&str, String), expected_new: &mut BTreeSet<VehicleIdx>| {
        let new_dummies: Vec<VehicleIdx> = post.dummies.keys().copied().filter(|d| !pre.dummies.contains_key(d)).collect();
        if svc.is_empty() {
            if !new_dummies.is_empty() {
                fail("unexpected-dummy", format!("no service trip was displaced but new dummy tours {:?} appeared", new_dummies));
            }
            if let Some(Some(d)) = returned {
                fail("unexpected-dummy", format!("returned new dummy {} although no service trip was displaced", d));
            }
        } else {
            // one new dummy tour in general; if a displaced maintenance slot was the only connection between two of the
            // trips, one dummy tour per maximal chain of consecutively connectable trips (a dummy tour is a path)
            let mut chains: Vec<Vec<NodeIdx>> = vec![];
            for &n in svc {
                match chains.last_mut() {
                    Some(c) if a.reach(*c.last().unwrap(), n) => c.push(n),
                    _ => chains.push(vec![n]),
                }
            }
            let mut nd = new_dummies.clone();
            nd.sort();
            if nd.len() != chains.len() {
                fail("displaced-not-handed-back", format!("displaced service trips [{}] form {} connectable chain(s) and must be in as many new dummy tours, new dummies: {:?}", names(svc), chains.len(), new_dummies));
            } else {
                for (d, chain) in nd.iter().zip(chains.iter()) {
                    expected_new.insert(*d);
                    if services(a, &post.dummies[d]) != *chain || post.dummies[d].len() != chain.len() {
                        fail("displaced-not-handed-back", format!("new dummy {} holds [{}], displaced service trips are [{}]", d, names(&post.dummies[d]), names(chain)));
                    }
                }
                if let Some(ret_d) = returned {
                    if ret_d != Some(nd[0]) {
                        fail("displaced-not-handed-back", format!("returned {:?} but the (first) new dummy is {}", ret_d, nd[0]));
                    }
                }
            }
        }
    };

    match op {
        Op::ImproveDepots { .. } | Op::EndGreedy | Op::EndConsistent => {
            for (x, (vt, ns)) in &pre.tours {
                match post.tours.get(x) {
                    Some((vt2, ns2)) => {
                        if vt != vt2 || activities(a, ns) != activities(a, ns2) {
                            fail("depot-op-changed-activities", format!("{}: [{}] became [{}]", x, names(ns), names(ns2)));
                        }
                        if matches!(op, Op::EndGreedy | Op::EndConsistent) && ns.first() != ns2.first() {
                            fail("depot-op-changed-activities", format!("{}: end-depot reassignment changed the start depot", x));
                        }
                        if let Op::ImproveDepots { vs: Some(list) } = op {
                            if !list.contains(x) && ns != ns2 {
                                fail("frame-other-vehicle", format!("{} was not named but its tour changed", x));
                            }
                        }
                    }
                    None => fail("depot-op-changed-activities", format!("{} disappeared", x)),
                }
            }
            if post.tours.len() != pre.tours.len() || post.dummies != pre.dummies || post.formations != pre.formations {
                fail("depot-op-changed-activities", "vehicle set, dummy tours or formations changed".into());
            }
            return v;
        }
        Op::Recompute { .. } | Op::SetNewFast { .. } | Op::SetMove { .. } => {
            if pre != post {
                fail("transition-op-changed-schedule", "tours, dummy tours or formations changed".into());
            }
            return v;
        }
        Op::Spawn { vt, nodes } => {
            match ret {
                Ret::Vehicle(id) => {
                    expected_new.insert(*id);
                    if pre.tours.contains_key(id) || pre.dummies.contains_key(id) {
                        fail("spawn", format!("returned id {} already existed", id));
                    }
                    match post.tours.get(id) {
                        Some((t, ns)) => {
                            if t != vt {
                                fail("spawn", format!("{} has type {} instead of {}", id, t, vt));
                            }
                            if activities(a, ns) != activities(a, nodes) {
                                fail("spawn", format!("{} got [{}] instead of the activities of [{}]", id, names(ns), names(nodes)));
                            }
                        }
                        None => fail("spawn", format!("returned {} is not a vehicle of the result", id)),
                    }
                    for n in activities(a, nodes) {
                        touched_nodes.insert(n);
                        if let Err(e) = formation_rule(&pre.formations[&n], &post.formations[&n], None, Some(*id)) {
                            fail("formation-order", format!("{}: {}", name(n), e));
                        }
                    }
                }
                _ => fail("spawn", "no vehicle id returned".into()),
            }
        }
        Op::ReplaceDummy { d, vt } => {
            touched_vehicles.insert(*d);
            let dn = pre.dummies.get(d).cloned().unwrap_or_default();
            if post.dummies.contains_key(d) {
                fail("replace-dummy", format!("{} still exists", d));
            }
            match ret {
                Ret::Vehicle(id) => {
                    expected_new.insert(*id);
                    match post.tours.get(id) {
                        Some((t, ns)) => {
                            if t != vt || activities(a, ns) != dn {
                                fail("replace-dummy", format!("{} got [{}] type {} instead of [{}] type {}", id, names(ns), t, names(&dn), vt));
                            }
                        }
                        None => fail("replace-dummy", format!("returned {} is not a vehicle of the result", id)),
                    }
                    for n in dn {
                        touched_nodes.insert(n);
                        if let Err(e) = formation_rule(&pre.formations[&n], &post.formations[&n], None, Some(*id)) {
                            fail("formation-order", format!("{}: {}", name(n), e));
                        }
                    }
                }
                _ => fail("replace-dummy", "no vehicle id returned".into()),
            }
        }
        Op::Delete { .. } | Op::Remove { .. } => {
            let (veh, removed): (VehicleIdx, Vec<NodeIdx>) = match op {
                Op::Delete { v: x } => (*x, pre.tours[x].1.clone()),
                Op::Remove { v: x, a: s0, b: s1 } => {
                    let ns = &pre.tours[x].1;
                    match slice_of(ns, *s0, *s1) {
                        Some((i, j)) => (*x, ns[i..=j].to_vec()),
                        None => {
                            fail("remove", "segment is not a slice of the tour".into());
                            return v;
                        }
                    }
                }
                _ => unreachable!(),
            };
            touched_vehicles.insert(veh);
            let ns = &pre.tours[&veh].1;
            let rest = without(ns, &removed);
            if activities(a, &rest).is_empty() {
                if post.tours.contains_key(&veh) || post.dummies.contains_key(&veh) {
                    fail("vehicle-without-activity", format!("{} has no activity left but still exists", veh));
                }
            } else {
                match post.tours.get(&veh) {
                    Some((_, ns2)) => {
                        if *ns2 != rest {
                            fail("remove", format!("{}: expected [{}], got [{}]", veh, names(&rest), names(ns2)));
                        }
                    }
                    None => fail("remove", format!("{} disappeared although activities remain", veh)),
                }
            }
            let gone_acts: Vec<NodeIdx> = if activities(a, &rest).is_empty() { activities(a, ns) } else { activities(a, &removed) };
            for &n in &gone_acts {
                touched_nodes.insert(n);
                if let Err(e) = formation_rule(&pre.formations[&n], &post.formations[&n], Some(veh), None) {
                    fail("formation-order", format!("{}: {}", name(n), e));
                }
            }
            expect_dummy_for(&services(a, &gone_acts), None, &mut fail, &mut expected_new);
        }
        Op::AddPath { v: veh, nodes } if veh.is_dummy() => {
            touched_vehicles.insert(*veh);
            let ns = pre.dummies.get(veh).cloned().unwrap_or_default();
            let path: Vec<NodeIdx> = activities(a, nodes);
            let (exp, _dropped) = ref_insert(a, &ns, &path);
            if post.dummies.get(veh) != Some(&exp) {
                fail("insert-semantics", format!("dummy {}: inserting [{}] into [{}] must give [{}], got {:?}", veh, names(&path), names(&ns), names(&exp), post.dummies.get(veh).map(|x| names(x))));
            }
            if post.formations != pre.formations {
                fail("frame-formation", "adding a path to a dummy tour changed a formation".into());
            }
        }
        Op::AddPath { v: veh, nodes } => {
            touched_vehicles.insert(*veh);
            let ns = &pre.tours[veh].1;
            let (exp, dropped) = ref_insert(a, ns, nodes);
            match post.tours.get(veh) {
                Some((_, ns2)) => {
                    if *ns2 != exp {
                        fail("insert-semantics", format!("{}: inserting [{}] into [{}] must give [{}], got [{}]", veh, names(nodes), names(ns), names(&exp), names(ns2)));
                    }
                }
                None => fail("insert-semantics", format!("{} disappeared", veh)),
            }
            match ret {
                Ret::PathOpt(p) => {
                    let exp_ret: Option<Vec<NodeIdx>> = if activities(a, &dropped).is_empty() { None } else { Some(dropped.clone()) };
                    if *p != exp_ret {
                        fail("dropped-not-reported", format!("{}: dropped [{}], reported {:?}", veh, names(&dropped), p.as_ref().map(|x| names(x))));
                    }
                }
                _ => fail("dropped-not-reported", "no path option returned".into()),
            }
            let new_acts = activities(a, nodes);
            for &n in &new_acts {
                touched_nodes.insert(n);
                // (if the vehicle already served the node only multiplicity and the others' order are fixed by the statement)
                if let Err(e) = formation_rule(&pre.formations[&n], &post.formations[&n], None, Some(*veh)) {
                    fail("formation-order", format!("{}: {}", name(n), e));
                }
            }
            for n in activities(a, &dropped) {
                if new_acts.contains(&n) {
                    continue;
                }
                touched_nodes.insert(n);
                if let Err(e) = formation_rule(&pre.formations[&n], &post.formations[&n], Some(*veh), None) {
                    fail("formation-order", format!("{}: {}", name(n), e));
                }
            }
        }
        Op::Override { p, r, a: s0, b: s1 } => {
            touched_vehicles.insert(*p);
            touched_vehicles.insert(*r);
            let pn = pre.nodes_of(*p).cloned().unwrap_or_default();
            let rn = pre.nodes_of(*r).cloned().unwrap_or_default();
            let (i, j) = match slice_of(&pn, *s0, *s1) {
                Some(x) => x,
                None => {
                    fail("override", "segment is not a slice of the provider's tour".into());
                    return v;
                }
            };
            let moved = pn[i..=j].to_vec();
            let rest = without(&pn, &moved);
            // provider
            if activities(a, &rest).is_empty() {
                if post.tours.contains_key(p) || post.dummies.contains_key(p) {
                    fail("vehicle-without-activity", format!("provider {} has no activity left but still exists", p));
                }
            } else {
                match post.nodes_of(*p) {
                    Some(ns2) => {
                        if *ns2 != rest {
                            fail("provider-loses-exactly-moved", format!("{}: expected [{}], got [{}]", p, names(&rest), names(ns2)));
                        }
                    }
                    None => fail("provider-loses-exactly-moved", format!("provider {} disappeared although activities remain", p)),
                }
            }
            // receiver
            let path: Vec<NodeIdx> = if r.is_dummy() { activities(a, &moved) } else { moved.clone() };
            let (exp, dropped) = ref_insert(a, &rn, &path);
            match post.nodes_of(*r) {
                Some(ns2) => {
                    if *ns2 != exp {
                        fail("insert-semantics", format!("receiver {}: inserting [{}] into [{}] must give [{}], got [{}]", r, names(&path), names(&rn), names(&exp), names(ns2)));
                    }
                }
                None => fail("insert-semantics", format!("receiver {} disappeared", r)),
            }
            let moved_acts = activities(a, &moved);
            for &n in &moved_acts {
                touched_nodes.insert(n);
                if let Err(e) = formation_rule(&pre.formations[&n], &post.formations[&n], Some(*p), Some(*r)) {
                    fail("formation-order", format!("{}: {}", name(n), e));
                }
            }
            let displaced: Vec<NodeIdx> = activities(a, &dropped).into_iter().filter(|n| !moved_acts.contains(n)).collect();
            for &n in &displaced {
                touched_nodes.insert(n);
                if let Err(e) = formation_rule(&pre.formations[&n], &post.formations[&n], Some(*r), None) {
                    fail("formation-order", format!("{}: {}", name(n), e));
                }
            }
            let returned = match ret {
                Ret::DummyOpt(d) => Some(*d),
                _ => None,
            };
            expect_dummy_for(&services(a, &activities(a, &dropped)), returned, &mut fail, &mut expected_new);
        }
        Op::Fit { p, r, a: s0, b: s1 } => {
            touched_vehicles.insert(*p);
            touched_vehicles.insert(*r);
            let pn = pre.nodes_of(*p).cloned().unwrap_or_default();
            let rn = pre.nodes_of(*r).cloned().unwrap_or_default();
            let (i, j) = match slice_of(&pn, *s0, *s1) {
                Some(x) => x,
                None => {
                    fail("fit", "segment is not a slice of the provider's tour".into());
                    return v;
                }
            };
            let seg = pn[i..=j].to_vec();
            let rn2 = post.nodes_of(*r).cloned().unwrap_or_default();
            // receiver keeps all its own activities
            for n in activities(a, &rn) {
                if !rn2.contains(&n) {
                    fail("fit-receiver-lost-node", format!("receiver {} lost its own {}", r, name(n)));
                }
            }
            let gained: Vec<NodeIdx> = activities(a, &rn2).into_iter().filter(|n| !rn.contains(n)).collect();
            for n in &gained {
                if !seg.contains(n) {
                    fail("fit-gained-foreign-node", format!("receiver {} gained {} which is not in the segment", r, name(*n)));
                }
            }
            // provider loses exactly the gained activities (and a depot only together with everything)
            let pn2 = post.nodes_of(*p).cloned();
            let p_acts_expected: Vec<NodeIdx> = activities(a, &pn).into_iter().filter(|n| !gained.contains(n)).collect();
            match pn2 {
                Some(ns2) => {
                    if activities(a, &ns2) != p_acts_expected {
                        fail("provider-loses-exactly-moved", format!("{}: expected activities [{}], got [{}]", p, names(&p_acts_expected), names(&activities(a, &ns2))));
                    }
                }
                None => {
                    if !p_acts_expected.is_empty() {
                        fail("provider-loses-exactly-moved", format!("provider {} disappeared although [{}] were not moved", p, names(&p_acts_expected)));
                    }
                }
            }
            if p_acts_expected.is_empty() && (post.tours.contains_key(p) || post.dummies.contains_key(p)) {
                fail("vehicle-without-activity", format!("provider {} has no activity left but still exists", p));
            }
            // the receiver's tour is its old activities plus the gained ones, in time order, between depots
            for w in rn2.windows(2) {
                if !a.reach(w[0], w[1]) {
                    fail("fit-receiver-invalid", format!("receiver {}: {} cannot reach {}", r, name(w[0]), name(w[1])));
                }
            }
            for &n in &gained {
                touched_nodes.insert(n);
                if let Err(e) = formation_rule(&pre.formations[&n], &post.formations[&n], Some(*p), Some(*r)) {
                    fail("formation-order", format!("{}: {}", name(n), e));
                }
            }
            expect_dummy_for(&[], None, &mut fail, &mut expected_new);
        }
    }

    // frame conditions
    for (x, t) in &pre.tours {
        if !touched_vehicles.contains(x) && post.tours.get(x) != Some(t) {
            fail("frame-other-vehicle", format!("tour of uninvolved {} changed: [{}] -> {:?}", x, names(&t.1), post.tours.get(x).map(|y| names(&y.1))));
        }
    }
    for (x, t) in &pre.dummies {
        if !touched_vehicles.contains(x) && post.dummies.get(x) != Some(t) {
            fail("frame-other-vehicle", format!("dummy tour {} changed: [{}] -> {:?}", x, names(t), post.dummies.get(x).map(|y| names(y))));
        }
    }
    for x in &new_ids {
        if !expected_new.contains(x) {
            fail("frame-unexpected-vehicle", format!("unexpected new vehicle or dummy {}", x));
        }
    }
    for (n, f) in &pre.formations {
        if !touched_nodes.contains(n) && post.formations.get(n) != Some(f) {
            fail("frame-formation", format!("formation of untouched {} changed: {:?} -> {:?}", name(*n), f, post.formations.get(n)));
        }
    }
    v
}
