//! Instance grammar G: a deterministic enumerator of small, collision-forcing, README-valid inputs.
//!
//! An instance is `(Cfg, trips)`.  `Cfg` is a vector of small enumerated dimensions; configurations
//! are explored by bounded deviation from a base configuration (0, 1 or 2 dimensions differ).
//! Trips are multisets (repetition allowed, so identical trips force ties) over a catalogue of
//! `type x direction x departure slot x demand`.
#![allow(dead_code)]

use serde_json::{json, Value};

pub const NDIM: usize = 14;
pub type Cfg = [u8; NDIM];

pub const D_TYPES: usize = 0;
pub const D_SEGLIM: usize = 1;
pub const D_SHUNT: usize = 2;
pub const D_FORBID: usize = 3;
pub const D_DEPOTS: usize = 4;
pub const D_MAINT: usize = 5;
pub const D_MAXDIST: usize = 6;
pub const D_DH: usize = 7;
pub const D_COSTS: usize = 8;
pub const D_SEATED: usize = 9;
pub const D_TWOSEG: usize = 10;
pub const D_EXTRALOC: usize = 11;
pub const D_NEXTDAY: usize = 12;
pub const D_SHAPE: usize = 13;

/// (name, number of values) per dimension
pub const DIMS: [(&str, u8); NDIM] = [
    ("types", 5),     // 0 A | 1 A limit 1 | 2 A limit 2 | 3 A + B | 4 A + unused type C
    ("segLimit", 5),  // 0 none | 1 limit 1 on all route segments | 2 limit 2 on all | 3 limit 1 on direction-0 routes only | 4 limit 1 on the FIRST segment of direction-0 routes only (a second segment has none), limit 2 on direction-1 routes
    ("shunting", 5),  // (minimal, deadHead): 0 (0,0) | 1 (300,0) | 2 (0,300) | 3 (600,600) | 4 (900,0): staying put needs longer than a quick dead-head
    ("forbid", 2),    // forbidDeadHeadTrips: 0 absent | 1 true
    ("depots", 11),   // 0 absent | 1 [] | 2 one depot cap 1 | 3 one depot cap 2 | 4 two depots cap 1 each | 5 total 5, per-type 1 | 6 type not listed | 7 two depots cap 5 | 8 two depots at the SAME location, cap 1 each | 9 one depot of total 2 where the first type has its own limit 1 and every other type is listed without one | 10 a depot of capacity 0 at L0 and a depot at L1 whose allowedTypes list is empty
    ("maint", 9),     // 0 absent | 1 slot x1 track | 2 slot x2 tracks | 3 two slots | 4 slot overlapping/tying the trips | 5 slot but parameters.maintenance absent | 6 one slot x 4 tracks | 7 two slots at the same location that overlap in time | 8 a five-minute slot at L0 (09:02-09:07, reachable from L1 only by a quick dead-head detour between two trips) plus the later slot at L1
    ("maxDist", 4),   // 0 large (1000 km) | 1 binding (60 km) | 2 beyond the stand-in distance of the overflow depot (30 000 km, the value of the repository's sample input) | 3 a fifth of one trip (10 km): every track of every slot is handed out
    ("deadHeads", 6), // 0 symmetric | 1 asymmetric | 2 slower than a service trip | 3 three locations, non-metric | 4 very quick (60 s) | 5 three locations where L1 and L2 are the same place (0 s, 0 m apart) and direction-1 trips leave from L2
    ("costs", 6),     // 0 default | 1 all zero | 2 dead-head cheaper than service | 3 idle dominant | 4 idle three orders of magnitude above everything else | 5 the default coefficients x 10 000 (a finer currency unit): every schedule costs more than 2^32
    ("seated", 2),    // 0 capacity binding | 1 seats binding
    ("twoSeg", 3),    // 0 one-segment routes | 1 direction-0 departures run a two-segment route | 2 direction-0 routes have three segments and their departures serve the first and the third only
    ("extraLoc", 2),  // 0 | 1 an unused third location
    ("nextDay", 2),   // 0 all trips on one day | 1 trips of departure slot 3 run on the following day (two planning days)
    ("shape", 4),     // how the same instance is written down: 0 plain | 1 deadHeadTrips.indices in the reverse order of the locations array | 2 every Optional[..] field that is unset is written as an explicit null | 3 every top-level array (and allowedTypes) listed in reverse
];

#[derive(Clone, Copy, Debug, PartialEq, Eq, PartialOrd, Ord, Hash)]
pub struct Trip {
    pub vt: u8,   // 0 = A, 1 = B
    pub dir: u8,  // 0 = L0->L1, 1 = L1->L0 (L1->L2 under deadHeads=3, L2->L0 under deadHeads=5)
    pub slot: u8, // 0 08:00 | 1 09:00 | 2 09:10 | 3 10:00
    pub dem: u8,  // 0 no passengers | 1 one vehicle | 2 two vehicles | 3 three vehicles
}

#[derive(Clone, Debug, PartialEq, Eq, Hash)]
pub struct Inst {
    pub cfg: Cfg,
    pub trips: Vec<Trip>,
}

pub const BASE0: Cfg = [0; NDIM];
/// the "rich" base: two types, two-segment routes with a limit on the first segment only, dead-head shunting,
/// a depot with mixed per-type limits, two co-located locations, a two-track slot with binding maximal distance
pub const BASE4: Cfg = [3, 4, 2, 0, 9, 2, 1, 5, 0, 0, 1, 0, 0, 0];
/// a slot that overlaps / ties with the trips (local search must displace trips to use it), binding maximal distance
pub const BASE2: Cfg = [0, 0, 0, 0, 0, 4, 1, 0, 0, 0, 0, 0, 0, 0];
/// scarce real depot capacity (one depot of capacity 1: overflow depot in use) with a two-track slot and a
/// maximal distance beyond the overflow depot's stand-in distance: overflow vehicles take part in rotation cycles
pub const BASE3: Cfg = [0, 0, 0, 0, 2, 2, 2, 0, 0, 0, 0, 0, 0, 0];
pub const BASE1: Cfg = [0, 0, 0, 0, 0, 2, 1, 0, 0, 0, 0, 0, 0, 0]; // one slot x 2 tracks, binding maximal distance

/// all configurations differing from `base` in at most `k` dimensions, simplest first
pub fn configs(base: Cfg, k: usize) -> Vec<Cfg> {
    let mut out = vec![base];
    if k >= 1 {
        for d in 0..NDIM {
            for v in 0..DIMS[d].1 {
                if v != base[d] {
                    let mut c = base;
                    c[d] = v;
                    out.push(c);
                }
            }
        }
    }
    if k >= 2 {
        for d1 in 0..NDIM {
            for d2 in d1 + 1..NDIM {
                for v1 in 0..DIMS[d1].1 {
                    for v2 in 0..DIMS[d2].1 {
                        if v1 != base[d1] && v2 != base[d2] {
                            let mut c = base;
                            c[d1] = v1;
                            c[d2] = v2;
                            out.push(c);
                        }
                    }
                }
            }
        }
    }
    out
}

pub fn catalogue(cfg: &Cfg) -> Vec<Trip> {
    let mut v = vec![];
    let ntypes = if cfg[D_TYPES] == 3 { 2 } else { 1 };
    for vt in 0..ntypes {
        for dir in 0..2 {
            for slot in 0..4 {
                for dem in 0..4 {
                    v.push(Trip { vt, dir, slot, dem });
                }
            }
        }
    }
    v
}

/// all multisets of size 1..=n over the catalogue, smallest first
pub fn trip_multisets(cat: &[Trip], n: usize) -> Vec<Vec<Trip>> {
    let mut out = vec![];
    fn rec(cat: &[Trip], from: usize, left: usize, cur: &mut Vec<Trip>, out: &mut Vec<Vec<Trip>>) {
        if left == 0 {
            out.push(cur.clone());
            return;
        }
        for i in from..cat.len() {
            cur.push(cat[i]);
            rec(cat, i, left - 1, cur, out);
            cur.pop();
        }
    }
    for size in 1..=n {
        rec(cat, 0, size, &mut vec![], &mut out);
    }
    out
}

/// the instance set of a tier: for each base, configurations with <= dev deviations x trip multisets <= ntrips
pub fn instances(bases: &[Cfg], dev: usize, ntrips: usize) -> Vec<Inst> {
    let mut out = vec![];
    let mut seen = std::collections::HashSet::new();
    for b in bases {
        for cfg in configs(*b, dev) {
            if !seen.insert(cfg) {
                continue;
            }
            let cat = catalogue(&cfg);
            for trips in trip_multisets(&cat, ntrips) {
                out.push(Inst { cfg, trips });
            }
        }
    }
    out
}

impl Inst {
    pub fn code(&self) -> String {
        let c: Vec<String> = self.cfg.iter().map(|x| x.to_string()).collect();
        let t: Vec<String> = self.trips.iter().map(|t| format!("{}.{}.{}.{}", t.vt, t.dir, t.slot, t.dem)).collect();
        format!("{};{}", c.join(","), t.join(","))
    }

    pub fn from_code(s: &str) -> Result<Inst, String> {
        let (c, t) = s.split_once(';').ok_or("bad instance code")?;
        let cv: Vec<u8> = c.split(',').map(|x| x.parse::<u8>().map_err(|e| e.to_string())).collect::<Result<_, _>>()?;
        // codes written before a dimension was added are shorter: missing dimensions are 0
        if cv.len() > NDIM || cv.len() < 12 {
            return Err("bad cfg length".into());
        }
        let mut cfg = [0u8; NDIM];
        cfg[..cv.len()].copy_from_slice(&cv);
        let mut trips = vec![];
        for tt in t.split(',').filter(|x| !x.is_empty()) {
            let p: Vec<u8> = tt.split('.').map(|x| x.parse::<u8>().map_err(|e| e.to_string())).collect::<Result<_, _>>()?;
            if p.len() != 4 {
                return Err("bad trip".into());
            }
            trips.push(Trip { vt: p[0], dir: p[1], slot: p[2], dem: p[3] });
        }
        Ok(Inst { cfg, trips })
    }

    pub fn describe(&self) -> String {
        let devs: Vec<String> = (0..NDIM).filter(|&d| self.cfg[d] != 0).map(|d| format!("{}={}", DIMS[d].0, self.cfg[d])).collect();
        format!("cfg[{}] trips[{}]", devs.join(" "), self.code().split(';').nth(1).unwrap_or(""))
    }

    pub fn has_maintenance(&self) -> bool {
        self.cfg[D_MAINT] != 0
    }

    pub fn to_json(&self) -> Value {
        let c = &self.cfg;
        let three_locs = c[D_DH] == 3 || c[D_DH] >= 5 || c[D_EXTRALOC] == 1;
        let locs: Vec<&str> = if three_locs { vec!["L0", "L1", "L2"] } else { vec!["L0", "L1"] };

        // vehicle types
        let mut types = vec![];
        let mut a = json!({"id": "A", "capacity": 100, "seats": 50});
        match c[D_TYPES] {
            1 => a["maximalFormationCount"] = json!(1),
            2 => a["maximalFormationCount"] = json!(2),
            _ => {}
        }
        types.push(a);
        if c[D_TYPES] == 3 {
            types.push(json!({"id": "B", "capacity": 80, "seats": 40}));
        }
        if c[D_TYPES] == 4 {
            types.push(json!({"id": "C", "capacity": 60, "seats": 30, "maximalFormationCount": 3}));
        }
        let type_ids: Vec<&str> = match c[D_TYPES] {
            3 => vec!["A", "B"],
            4 => vec!["A", "C"],
            _ => vec!["A"],
        };

        let (sh_min, sh_dh) = match c[D_SHUNT] {
            0 => (0, 0),
            1 => (300, 0),
            2 => (0, 300),
            3 => (600, 600),
            _ => (900, 0),
        };

        // routes: one per (type, direction) that is used
        let dir_ends = |dir: u8| -> (&str, &str) {
            match (dir, c[D_DH]) {
                (0, _) => ("L0", "L1"),
                (_, 3) => ("L1", "L2"),
                (_, 5) => ("L2", "L0"),
                (_, _) => ("L1", "L0"),
            }
        };
        let mut routes: Vec<Value> = vec![];
        let mut used: Vec<(u8, u8)> = self.trips.iter().map(|t| (t.vt, t.dir)).collect();
        used.sort();
        used.dedup();
        for (vt, dir) in used.iter().copied() {
            let tname = if vt == 0 { "A" } else { "B" };
            let (o, d) = dir_ends(dir);
            let lim: Option<i64> = match c[D_SEGLIM] {
                1 => Some(1),
                2 => Some(2),
                3 | 4 if dir == 0 => Some(1),
                4 => Some(2),
                _ => None,
            };
            // the limit of a second segment
            let lim1: Option<i64> = if c[D_SEGLIM] == 4 { None } else { lim };
            let rid = format!("r_{}_{}", tname, dir);
            let mut segs = vec![];
            if c[D_TWOSEG] == 2 && dir == 0 {
                // three segments; departures skip the middle one (the vehicle waits at L1 meanwhile)
                let mut s0 = json!({"id": format!("{}_s0", rid), "order": 0, "origin": o, "destination": d, "distance": 50000, "duration": 3600});
                let s1 = json!({"id": format!("{}_s1", rid), "order": 1, "origin": d, "destination": d, "distance": 10000, "duration": 600});
                let mut s2 = json!({"id": format!("{}_s2", rid), "order": 2, "origin": d, "destination": d, "distance": 15000, "duration": 900});
                if let Some(l) = lim {
                    s0["maximalFormationCount"] = json!(l);
                }
                if let Some(l) = lim1 {
                    s2["maximalFormationCount"] = json!(l);
                }
                segs.push(s0);
                segs.push(s1);
                segs.push(s2);
            } else if c[D_TWOSEG] == 1 && dir == 0 {
                // L0 -> L1 in two halves via an intermediate stop at L1 (second half is a short shuttle L1 -> L1)
                let mut s0 = json!({"id": format!("{}_s0", rid), "order": 0, "origin": o, "destination": d, "distance": 50000, "duration": 3600});
                let mut s1 = json!({"id": format!("{}_s1", rid), "order": 1, "origin": d, "destination": d, "distance": 10000, "duration": 600});
                if let Some(l) = lim {
                    s0["maximalFormationCount"] = json!(l);
                }
                if let Some(l) = lim1 {
                    s1["maximalFormationCount"] = json!(l);
                }
                segs.push(s0);
                segs.push(s1);
            } else {
                let mut s0 = json!({"id": format!("{}_s0", rid), "order": 0, "origin": o, "destination": d, "distance": 50000, "duration": 3600});
                if let Some(l) = lim {
                    s0["maximalFormationCount"] = json!(l);
                }
                segs.push(s0);
            }
            routes.push(json!({"id": rid, "vehicleType": tname, "segments": segs}));
        }

        // departures
        let slot_time = |s: u8| match s {
            0 => (8, 0),
            1 => (9, 0),
            2 => (9, 10),
            _ => (10, 0),
        };
        let demand = |dem: u8| -> (i64, i64) {
            match (dem, c[D_SEATED]) {
                (0, _) => (0, 0),
                (1, 0) => (80, 40),
                (2, 0) => (150, 60),
                (_, 0) => (250, 100),
                (1, _) => (80, 90),
                (2, _) => (150, 140),
                (_, _) => (250, 160),
            }
        };
        let fmt_time = |secs: i64| format!("2024-01-{:02}T{:02}:{:02}:{:02}", 15 + secs / 86400, (secs % 86400) / 3600, (secs % 3600) / 60, secs % 60);
        let mut departures = vec![];
        for (i, t) in self.trips.iter().enumerate() {
            let tname = if t.vt == 0 { "A" } else { "B" };
            let rid = format!("r_{}_{}", tname, t.dir);
            let (h, m) = slot_time(t.slot);
            let dep = (h * 3600 + m * 60) as i64 + if c[D_NEXTDAY] == 1 && t.slot == 3 { 86400 } else { 0 };
            let (pax, seated) = demand(t.dem);
            let mut segs = vec![json!({"id": format!("t{}_s0", i), "routeSegment": format!("{}_s0", rid), "departure": fmt_time(dep), "passengers": pax, "seated": seated})];
            if c[D_TWOSEG] == 1 && t.dir == 0 {
                segs.push(json!({"id": format!("t{}_s1", i), "routeSegment": format!("{}_s1", rid), "departure": fmt_time(dep + 3600 + sh_min as i64), "passengers": pax, "seated": seated}));
            }
            if c[D_TWOSEG] == 2 && t.dir == 0 {
                segs.push(json!({"id": format!("t{}_s1", i), "routeSegment": format!("{}_s2", rid), "departure": fmt_time(dep + 3600 + sh_min as i64), "passengers": pax, "seated": seated}));
            }
            departures.push(json!({"id": format!("t{}", i), "route": rid, "segments": segs}));
        }

        // dead-head matrix
        let (durations, distances): (Value, Value) = match (c[D_DH], three_locs) {
            (0, false) => (json!([[0, 1800], [1800, 0]]), json!([[0, 30000], [30000, 0]])),
            (1, false) => (json!([[0, 1200], [2400, 0]]), json!([[0, 20000], [40000, 0]])),
            (2, false) => (json!([[0, 4000], [4000, 0]]), json!([[0, 70000], [70000, 0]])),
            (0, true) => (json!([[0, 1800, 2400], [1800, 0, 1200], [2400, 1200, 0]]), json!([[0, 30000, 40000], [30000, 0, 20000], [40000, 20000, 0]])),
            (1, true) => (json!([[0, 1200, 2400], [2400, 0, 1200], [2400, 1200, 0]]), json!([[0, 20000, 40000], [40000, 0, 20000], [40000, 20000, 0]])),
            (2, true) => (json!([[0, 4000, 2400], [4000, 0, 1200], [2400, 1200, 0]]), json!([[0, 70000, 40000], [70000, 0, 20000], [40000, 20000, 0]])),
            (4, false) => (json!([[0, 60], [60, 0]]), json!([[0, 1000], [1000, 0]])),
            // (used by C06's own family only, outside the deviation grid) L2 is marked unreachable in time but lies 2 km away
            (6, _) => (json!([[0, 1800, 99999999999i64], [1800, 0, 99999999999i64], [99999999999i64, 99999999999i64, 0]]), json!([[0, 30000, 2000], [30000, 0, 2000], [2000, 2000, 0]])),
            (5, _) => (json!([[0, 1800, 1800], [1800, 0, 0], [1800, 0, 0]]), json!([[0, 30000, 30000], [30000, 0, 0], [30000, 0, 0]])),
            (4, true) => (json!([[0, 60, 60], [60, 0, 60], [60, 60, 0]]), json!([[0, 1000, 1000], [1000, 0, 1000], [1000, 1000, 0]])),
            // non-metric: L0->L2 direct is far longer than via L1, L2->L0 is very short
            (_, _) => (json!([[0, 1800, 5400], [1800, 0, 1800], [600, 1800, 0]]), json!([[0, 30000, 90000], [30000, 0, 30000], [10000, 30000, 0]])),
        };

        // maintenance slots
        let slot_loc = if c[D_DH] == 3 { "L2" } else { "L0" };
        let slots: Option<Value> = match c[D_MAINT] {
            0 => None,
            1 | 5 => Some(json!([{"id": "m0", "location": slot_loc, "start": fmt_time(6 * 3600), "end": fmt_time(7 * 3600), "trackCount": 1}])),
            6 => Some(json!([{"id": "m0", "location": slot_loc, "start": fmt_time(6 * 3600), "end": fmt_time(7 * 3600), "trackCount": 4}])),
            8 => Some(json!([
                {"id": "m0", "location": "L0", "start": fmt_time(9 * 3600 + 120), "end": fmt_time(9 * 3600 + 420), "trackCount": 1},
                {"id": "m1", "location": "L1", "start": fmt_time(11 * 3600 + 1800), "end": fmt_time(12 * 3600 + 1800), "trackCount": 1}
            ])),
            7 => Some(json!([
                {"id": "m0", "location": slot_loc, "start": fmt_time(6 * 3600), "end": fmt_time(7 * 3600), "trackCount": 1},
                {"id": "m1", "location": slot_loc, "start": fmt_time(6 * 3600 + 1800), "end": fmt_time(7 * 3600 + 1800), "trackCount": 1}
            ])),
            2 => Some(json!([{"id": "m0", "location": slot_loc, "start": fmt_time(6 * 3600), "end": fmt_time(7 * 3600), "trackCount": 2}])),
            3 => Some(json!([
                {"id": "m0", "location": slot_loc, "start": fmt_time(6 * 3600), "end": fmt_time(7 * 3600), "trackCount": 1},
                {"id": "m1", "location": "L1", "start": fmt_time(11 * 3600 + 1800), "end": fmt_time(12 * 3600 + 1800), "trackCount": 1}
            ])),
            _ => Some(json!([{"id": "m0", "location": "L1", "start": fmt_time(9 * 3600), "end": fmt_time(9 * 3600 + 1800), "trackCount": 1}])),
        };

        // depots
        let all_types_unlimited: Vec<Value> = type_ids.iter().map(|t| json!({"vehicleType": t})).collect();
        let depots: Option<Value> = match c[D_DEPOTS] {
            0 => None,
            1 => Some(json!([])),
            2 => Some(json!([{"id": "dA", "location": "L0", "capacity": 1, "allowedTypes": all_types_unlimited}])),
            3 => Some(json!([{"id": "dA", "location": "L0", "capacity": 2, "allowedTypes": all_types_unlimited}])),
            4 => Some(json!([
                {"id": "dA", "location": "L0", "capacity": 1, "allowedTypes": all_types_unlimited},
                {"id": "dB", "location": "L1", "capacity": 1, "allowedTypes": all_types_unlimited}
            ])),
            5 => {
                let at: Vec<Value> = type_ids.iter().map(|t| json!({"vehicleType": t, "capacity": 1})).collect();
                Some(json!([{"id": "dA", "location": "L0", "capacity": 5, "allowedTypes": at}]))
            }
            6 => {
                // type A is not listed: only the other type (if any) may start here
                let at: Vec<Value> = type_ids.iter().skip(1).map(|t| json!({"vehicleType": t})).collect();
                Some(json!([
                    {"id": "dA", "location": "L0", "capacity": 5, "allowedTypes": at},
                    {"id": "dB", "location": "L1", "capacity": 1, "allowedTypes": all_types_unlimited}
                ]))
            }
            7 => Some(json!([
                {"id": "dA", "location": "L0", "capacity": 5, "allowedTypes": all_types_unlimited},
                {"id": "dB", "location": "L1", "capacity": 5, "allowedTypes": all_types_unlimited}
            ])),
            // two depots at one location (a vehicle may end "at the right place" but in the wrong depot)
            8 => Some(json!([
                {"id": "dA", "location": "L0", "capacity": 1, "allowedTypes": all_types_unlimited},
                {"id": "dB", "location": "L0", "capacity": 1, "allowedTypes": all_types_unlimited}
            ])),
            // (C06's own family only) scarce depot at L0, roomy depot at the "unreachable" L2
            11 => Some(json!([
                {"id": "dA", "location": "L0", "capacity": 1, "allowedTypes": all_types_unlimited},
                {"id": "dY", "location": "L2", "capacity": 5, "allowedTypes": all_types_unlimited}
            ])),
            // depots that exist but can host nothing
            10 => Some(json!([
                {"id": "dA", "location": "L0", "capacity": 0, "allowedTypes": all_types_unlimited},
                {"id": "dB", "location": "L1", "capacity": 5, "allowedTypes": []}
            ])),
            // mixed: the first type has its own limit, the others are listed without one; only the total binds them
            _ => {
                let at: Vec<Value> = type_ids.iter().enumerate().map(|(i, t)| if i == 0 { json!({"vehicleType": t, "capacity": 1}) } else { json!({"vehicleType": t}) }).collect();
                Some(json!([{"id": "dA", "location": "L0", "capacity": 2, "allowedTypes": at}]))
            }
        };

        let costs = match c[D_COSTS] {
            0 => json!({"staff": 100, "serviceTrip": 50, "maintenance": 10, "deadHeadTrip": 500, "idle": 20}),
            1 => json!({"staff": 0, "serviceTrip": 0, "maintenance": 0, "deadHeadTrip": 0, "idle": 0}),
            2 => json!({"staff": 100, "serviceTrip": 50, "deadHeadTrip": 10, "idle": 20}),
            3 => json!({"staff": 100, "serviceTrip": 50, "maintenance": 10, "deadHeadTrip": 500, "idle": 1000}),
            5 => json!({"staff": 1000000, "serviceTrip": 500000, "maintenance": 100000, "deadHeadTrip": 5000000, "idle": 200000}),
            // waiting is what costs (an hour of idling outweighs a vehicle unless the vehicle price accounts for idle)
            _ => json!({"staff": 1, "serviceTrip": 1, "maintenance": 1, "deadHeadTrip": 1, "idle": 1000}),
        };

        let mut params = json!({
            "shunting": {"minimalDuration": sh_min, "deadHeadTripDuration": sh_dh},
            "costs": costs
        });
        if c[D_FORBID] == 1 {
            params["forbidDeadHeadTrips"] = json!(true);
        }
        if c[D_MAINT] != 0 && c[D_MAINT] != 5 {
            params["maintenance"] = json!({"maximalDistance": match c[D_MAXDIST] { 1 => 60000, 2 => 30000000, 3 => 10000, _ => 1000000 }});
        }

        let mut inp = json!({
            "vehicleTypes": types,
            "locations": locs.iter().map(|l| json!({"id": l})).collect::<Vec<_>>(),
        });
        if let Some(d) = depots {
            inp["depots"] = d;
        }
        inp["routes"] = json!(routes);
        inp["departures"] = json!(departures);
        if let Some(s) = slots {
            inp["maintenanceSlots"] = s;
        }
        inp["deadHeadTrips"] = json!({"indices": locs, "durations": durations, "distances": distances});
        inp["parameters"] = params;
        match c[D_SHAPE] {
            1 => {
                // the matrices are indexed by `indices`, not by the position in `locations`
                let n = locs.len();
                let rev = |m: &Value| -> Value { json!((0..n).map(|i| (0..n).map(|j| m[n - 1 - i][n - 1 - j].clone()).collect::<Vec<_>>()).collect::<Vec<_>>()) };
                let dh = inp["deadHeadTrips"].clone();
                inp["deadHeadTrips"] = json!({"indices": locs.iter().rev().collect::<Vec<_>>(), "durations": rev(&dh["durations"]), "distances": rev(&dh["distances"])});
            }
            2 => {
                let set_null = |v: &mut Value, k: &str| {
                    if v.get(k).is_none() {
                        v[k] = Value::Null;
                    }
                };
                for t in inp["vehicleTypes"].as_array_mut().unwrap() {
                    set_null(t, "maximalFormationCount");
                }
                for r in inp["routes"].as_array_mut().unwrap() {
                    for s in r["segments"].as_array_mut().unwrap() {
                        set_null(s, "maximalFormationCount");
                    }
                }
                if let Some(ds) = inp.get_mut("depots").and_then(|d| d.as_array_mut()) {
                    for d in ds {
                        for at in d["allowedTypes"].as_array_mut().unwrap() {
                            set_null(at, "capacity");
                        }
                    }
                }
                set_null(&mut inp["parameters"], "forbidDeadHeadTrips");
                set_null(&mut inp["parameters"]["costs"], "maintenance");
            }
            3 => {
                for k in ["vehicleTypes", "locations", "depots", "routes", "departures", "maintenanceSlots"] {
                    if let Some(a) = inp.get_mut(k).and_then(|d| d.as_array_mut()) {
                        a.reverse();
                    }
                }
                if let Some(ds) = inp.get_mut("depots").and_then(|d| d.as_array_mut()) {
                    for d in ds {
                        d["allowedTypes"].as_array_mut().unwrap().reverse();
                    }
                }
            }
            _ => {}
        }
        inp
    }
}
