//! Canonical, cache-free description of a schedule (what future behaviour can depend on).
#![allow(dead_code)]
use model::base_types::{NodeIdx, VehicleIdx, VehicleTypeIdx};
use solution::Schedule;
use std::fmt::Write;

pub fn tour_nodes(s: &Schedule, v: VehicleIdx) -> Vec<NodeIdx> {
    s.tour_of(v).map(|t| t.all_nodes_iter().collect()).unwrap_or_default()
}

pub fn types(s: &Schedule) -> Vec<VehicleTypeIdx> {
    s.get_network().vehicle_types().iter().collect()
}

/// vehicles with type and node list, dummies with node list, ordered formations, cycles per type
pub fn schedule_key(s: &Schedule) -> String {
    let mut k = String::new();
    for vt in types(s) {
        for v in s.vehicles_iter(vt) {
            let _ = write!(k, "{}:{}[", v, vt);
            for n in tour_nodes(s, v) {
                let _ = write!(k, "{},", n);
            }
            k.push_str("];");
        }
    }
    k.push('|');
    for d in s.dummy_iter() {
        let _ = write!(k, "{}[", d);
        for n in tour_nodes(s, d) {
            let _ = write!(k, "{},", n);
        }
        k.push_str("];");
    }
    k.push('|');
    let nw = s.get_network();
    let mut cov: Vec<NodeIdx> = nw.coverable_nodes().collect();
    cov.sort();
    for n in cov {
        let f = s.train_formation_of(n).ids();
        if !f.is_empty() {
            let _ = write!(k, "{}<", n);
            for v in f {
                let _ = write!(k, "{},", v);
            }
            k.push_str(">;");
        }
    }
    k.push('|');
    for vt in types(s) {
        let _ = write!(k, "T{}:", vt);
        for c in s.next_day_transition_of(vt).cycles_iter() {
            k.push('(');
            for v in c.iter() {
                let _ = write!(k, "{},", v);
            }
            k.push(')');
        }
        k.push(';');
    }
    k
}

/// the same without rotation cycles (tours, dummies, formations only)
pub fn tours_key(s: &Schedule) -> String {
    let k = schedule_key(s);
    let mut parts: Vec<&str> = k.split('|').collect();
    parts.pop();
    parts.join("|")
}

/// cached figures of a schedule, for "base unchanged" comparisons
pub fn caches_key(s: &Schedule) -> String {
    let mut k = format!("u={:?};mv={};c={};n={};d={};", s.unserved_passengers(), s.maintenance_violation(), s.costs(), s.number_of_vehicles(), s.number_of_dummy_tours());
    for vt in types(s) {
        for v in s.vehicles_iter(vt) {
            let t = s.tour_of(v).unwrap();
            let _ = write!(k, "{}:{:?},{:?},{},{},{};", v, t.service_distance(), t.dead_head_distance(), t.costs(), t.visits_maintenance(), t.useful_duration());
        }
        let tr = s.next_day_transition_of(vt);
        let _ = write!(k, "T{}:{},{};", vt, tr.maintenance_violation(), tr.maintenance_counter());
        for c in tr.cycles_iter() {
            let _ = write!(k, "{},", c.maintenance_counter());
        }
    }
    for d in s.get_network().depots_iter() {
        for vt in types(s) {
            let _ = write!(k, "D{}.{}:{},{};", d, vt, s.number_of_vehicles_of_same_type_spawned_at(d, vt), s.depot_balance(d, vt));
        }
    }
    k
}

/// lexicographic objective read through the public getters
pub fn objective(s: &Schedule) -> (i64, i64, i64, i64) {
    let u = s.unserved_passengers();
    ((u.0 + u.1) as i64, s.maintenance_violation(), s.number_of_vehicles() as i64, s.costs() as i64)
}

/// `schedule_key` with vehicle and dummy ids replaced by their ranks (position in id order among the
/// real vehicles resp. among the dummies).  New ids are always larger than all existing ones, so two
/// schedules with the same ranked key have the same futures up to this order-preserving renaming;
/// unlike the raw key it does not depend on how many ids were burnt on the way.
pub fn ranked_key(s: &Schedule) -> String {
    let mut reals: Vec<VehicleIdx> = s.vehicles_iter_all().collect();
    reals.sort();
    let mut dums: Vec<VehicleIdx> = s.dummy_iter().collect();
    dums.sort();
    let name = |v: VehicleIdx| -> String {
        if let Ok(i) = reals.binary_search(&v) {
            format!("v{}", i)
        } else if let Ok(i) = dums.binary_search(&v) {
            format!("d{}", i)
        } else {
            format!("?{}", v)
        }
    };
    let mut k = String::new();
    for vt in types(s) {
        for v in s.vehicles_iter(vt) {
            let _ = write!(k, "{}:{}[", name(v), vt);
            for n in tour_nodes(s, v) {
                let _ = write!(k, "{},", n);
            }
            k.push_str("];");
        }
    }
    k.push('|');
    for d in s.dummy_iter() {
        let _ = write!(k, "{}[", name(d));
        for n in tour_nodes(s, d) {
            let _ = write!(k, "{},", n);
        }
        k.push_str("];");
    }
    k.push('|');
    let nw = s.get_network();
    let mut cov: Vec<NodeIdx> = nw.coverable_nodes().collect();
    cov.sort();
    for n in cov {
        let f = s.train_formation_of(n).ids();
        if !f.is_empty() {
            let _ = write!(k, "{}<", n);
            for v in f {
                let _ = write!(k, "{},", name(v));
            }
            k.push_str(">;");
        }
    }
    k.push('|');
    for vt in types(s) {
        let _ = write!(k, "T{}:", vt);
        for c in s.next_day_transition_of(vt).cycles_iter() {
            k.push('(');
            for v in c.iter() {
                let _ = write!(k, "{},", name(v));
            }
            k.push(')');
        }
        // hidden state of the transition: the order in which (empty) cycle slots would be reused by new
        // one-vehicle cycles (the stack of reusable empty cycles), probed until a fresh slot is appended
        let mut tr = s.next_day_transition_of(vt).clone();
        // (a tour is needed for the probe; a schedule without any real vehicle borrows one from a scratch spawn)
        let scratch_tour = if s.get_tours().is_empty() {
            nw.service_nodes(vt).next().or_else(|| nw.maintenance_nodes().next()).and_then(|n| {
                std::panic::catch_unwind(std::panic::AssertUnwindSafe(|| s.spawn_vehicle_for_path(vt, vec![n]))).ok().and_then(|r| r.ok()).map(|(s2, v)| s2.tour_of(v).unwrap().clone())
            })
        } else {
            None
        };
        if let Some(t) = s.get_tours().values().next().or(scratch_tour.as_ref()) {
            k.push_str("slots");
            for j in 0..8u16 {
                let before: Vec<usize> = tr.cycles_iter().map(|c| c.len()).collect();
                let probe = std::panic::catch_unwind(std::panic::AssertUnwindSafe(|| tr.add_vehicle_to_own_cycle(VehicleIdx::Vehicle(u16::MAX - j), t, &nw)));
                match probe {
                    Ok(t2) => {
                        let slot = t2.cycles_iter().enumerate().find(|(i, c)| before.get(*i) != Some(&c.len())).map(|(i, _)| i).unwrap_or(usize::MAX);
                        let _ = write!(k, ",{}", slot as i64);
                        if slot >= before.len() {
                            break; // appended at the end: no reusable empty cycle left
                        }
                        tr = t2;
                    }
                    Err(_) => {
                        k.push('!');
                        break;
                    }
                }
            }
        }
        k.push(';');
    }
    k
}
