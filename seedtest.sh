#!/bin/sh
# usage: seedtest.sh <worktree> <demo test name or example> <crate>
# Confirms a seeded change in its scratch worktree: baseline lib tests pass with the change, the
# demonstration fails with the change and passes without it.
WT=$1; DEMO=$2; CRATE=$3
cd "$WT" || exit 2
echo "== baseline (lib tests) with the change"
cargo test --workspace --offline --lib 2>&1 | grep -E "^test result" | awk '{p+=$4; f+=$6} END {print "passed",p,"failed",f}'
echo "== demonstration with the change (must fail)"
cargo test --offline -p "$CRATE" --test "$DEMO" 2>&1 | grep -E "^test result|panicked|error\[" | head -5
echo "== demonstration without the change (must pass)"
git stash -q
cargo test --offline -p "$CRATE" --test "$DEMO" 2>&1 | grep -E "^test result|panicked|error\[" | head -5
git stash pop -q
git status --short | head -5
