#!/bin/sh
# Build the framework from files on disk only (offline).
set -e
cd /verif/harness
export CARGO_NET_OFFLINE=true
cargo build --release --offline
cargo build --profile deploy --offline
echo "setup ok"
