#!/bin/sh
# Build the framework from files on disk only (offline).
set -e
cd /verif/harness
export CARGO_NET_OFFLINE=true
cargo build --release --offline
cargo build --profile deploy --offline
cargo build --release --offline --manifest-path /repo/Cargo.toml -p server --bin server --target-dir /verif/target/repo
echo "setup ok"
