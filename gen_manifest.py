#!/usr/bin/env python3
"""Regenerates /verif/MANIFEST.json from the table below and validates it against the schema."""
import json, sys

SWEEP_NOTE = ("Trusted base: the harness' independent reader of the input/output JSON (spec.rs), written from the README; "
              "the instance grammar stands for 'all valid instances' (bounded: <=2/<=3 trips, <=1/<=2 configuration deviations from two bases); "
              "hash-map iteration order is an enumerated dimension (2/4 seeds), not exhausted; each solve runs in a watchdog-supervised worker (10 s horizon).")
MC_NOTE = ("Trusted base: the reference model / oracle in sched_oracles.rs and spec.rs; bounded by depth, arena set and vehicle/dummy caps stated in the evidence; "
           "the implementation itself is the model (states are real objects, transitions real calls), so there is no model/code gap to validate.")

CHECKS = {
 "C01": ("exploration", "sweep", "exhaustive enumeration of a bounded instance grammar x hash seeds through the real solve pipeline; oracle on every vehicle and consecutive activity pair of every answer", "§5/C01", SWEEP_NOTE),
 "C02": ("exploration", "sweep", "exhaustive instance-grammar sweep through the real pipeline; limits recomputed from the input (type-only, segment-only, both, neither; tracks; depot total and per-type)", "§5/C02", SWEEP_NOTE),
 "C03": ("exploration", "sweep", "exhaustive instance-grammar sweep; completeness of the trip view, vehicle view = trip view, depot loads, dead-head trips = location changes inside their gaps", "§5/C03", SWEEP_NOTE),
 "C04": ("exploration", "sweep", "exhaustive instance-grammar sweep; the four objective components re-evaluated from the schedule part of the same answer by an independent evaluator", "§5/C04", SWEEP_NOTE + " On answers touching the overflow depot costs and violation are compared from below only (the value of an infinite leg is a convention of the implementation)."),
 "C05": ("exploration", "sweep", "exhaustive instance-grammar sweep; cycles partition each fleet, every vehicle ends where its cyclic successor starts", "§5/C05", SWEEP_NOTE),
 "C06": ("exploration", "sweep", "exhaustive instance-grammar sweep in two builds (overflow-checking and deployed optimisation profile) under a watchdog: panic, abort or no answer within the horizon is a violation", "§5/C06", SWEEP_NOTE + " Termination is judged against a 10 s horizon (solves take milliseconds)."),
 "C07": ("exploration", "sweep", "exhaustive instance-grammar sweep; unserved passengers = lower bound, per-segment coverage vs min(required, limit), monotone over the stage snapshots (hook H2)", "§5/C07", SWEEP_NOTE),
 "C08": ("exploration", "sweep", "exhaustive instance-grammar sweep (instances with maintenance); every accepted step recorded by hook H1 must strictly improve lexicographically, chain contiguous, result is a fixpoint of the real solver factory", "§5/C08", SWEEP_NOTE + " Objective components are read through the public getters (their truth is C04/C09/C11)."),
 "C09": ("model_checking", "sched-mc", "explicit-state BFS over real Schedule objects: all sequences of public modifications with all valid arguments up to a depth; on every transition caches vs from-scratch construction (differential) and vs spec (independent)", "§5/C09", MC_NOTE),
 "C10": ("model_checking", "sched-mc", "explicit-state BFS over real Schedule objects; structural invariants re-implemented from the statement evaluated on every generated transition", "§5/C10", MC_NOTE),
 "C13": ("model_checking", "sched-mc", "explicit-state BFS over real Schedule objects; per-step effect and frame oracle against a reference model (insert semantics, formation order, handed-back trips, untouched rest, input unchanged)", "§5/C13", MC_NOTE),
 "C16": ("exploration", "sweep", "exhaustive instance-grammar sweep; stage snapshots (hook H2) of each solve compared with each other and with the returned JSON", "§5/C16", SWEEP_NOTE),
 "C17": ("exploration", "sweep", "exhaustive instance-grammar sweep through the real loader; node fields, depots, all ordered node pairs of can_reach, successors/predecessors as sets vs the input", "§5/C17", SWEEP_NOTE),
}
EXTRA = {}
try:
    EXTRA = json.load(open('/verif/manifest_extra.json'))
except Exception:
    pass
for k, v in EXTRA.get("checks", {}).items():
    CHECKS[k] = tuple(v)

TEXT = {
 "exploration": "Every element of a stated finite input space is run through the real code and judged by an oracle derived from the README/property statement; the claim is coverage of that space (counts in the evidence), not a sample.",
 "model_checking": "Bounded exhaustive exploration of the operation-history state graph of the real implementation, oracle evaluated on every transition before de-duplication; the claim is 'no violating history within the stated bounds'.",
 "fault_enumeration": "All request/fault sequences and handler-level interleavings up to a stated length against the real server binary.",
}

checks = []
for pid in sorted(CHECKS):
    level, engine, technique, ref, note = CHECKS[pid]
    checks.append({
        "property_id": pid,
        "quick_cmd": f"./check {pid} quick",
        "thorough_cmd": f"./check {pid} thorough",
        "evidence_file": f"/verif/evidence/{pid}.json",
        "replay_cmd_template": f"./check {pid} --replay {{path}}",
        "engine": engine,
        "level_claimed": {"category": level, "text": TEXT[level], "design_ref": f"DESIGN.md {ref}"},
        "level_note": note,
        "technique": technique,
    })

ALL = [f"C{i:02d}" for i in range(1, 19)]
na = []
NA_REASON = EXTRA.get("not_applicable", {})
for pid in ALL:
    if pid not in CHECKS:
        na.append({"property_id": pid, "reason": NA_REASON.get(pid, "check not built yet in this session; the technique applies (see DESIGN.md §5) and the property is not claimed until its check exists")})

manifest = {
    "version": 1,
    "setup_cmd": "./setup.sh",
    "hooks": {
        "guard": "rssched_verif",
        "enable": "RUSTFLAGS --cfg rssched_verif via /verif/harness/.cargo/config.toml (path dependencies on /repo crates, target dir /verif/target)",
        "baseline_off_cmd": "cd /repo && cargo test --workspace --no-fail-fast --offline",
        "source_commits": EXTRA.get("hook_commits", ["2c6f232"]),
        "add_only": True,
    },
    "engines": [
        {"name": "sweep", "path": "harness/src/sweep.rs", "serves_properties": [p for p in sorted(CHECKS) if CHECKS[p][1] == "sweep"], "kind_free_text": "engine A: exhaustive instance-grammar sweep through the real code in watchdog-supervised worker processes"},
        {"name": "sched-mc", "path": "harness/src/sched_mc.rs", "serves_properties": [p for p in sorted(CHECKS) if CHECKS[p][1] == "sched-mc"], "kind_free_text": "engine B: explicit-state exploration of the schedule modification graph over real objects"},
    ] + EXTRA.get("engines", []),
    "checks": checks,
    "notes": "All checks rebuild /verif/harness (path dependencies on /repo's working tree, hooks on) before running. Exit 0 = held on everything explored, 1 = VIOLATION line, 2 = machinery error. Known findings: /verif/known_findings.json.",
    "not_applicable": na,
}
json.dump(manifest, open('/verif/MANIFEST.json', 'w'), indent=1)
try:
    import jsonschema
    jsonschema.validate(manifest, json.load(open('/root/.vp/MANIFEST.schema.json')))
    print("MANIFEST.json valid;", len(checks), "checks,", len(na), "not claimed")
except ImportError:
    print("jsonschema not available; written without validation")
